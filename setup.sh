#!/bin/sh
# builds the verifier from files on disk only (offline)
set -e
cd "$(dirname "$0")"
export GOFLAGS=-mod=mod GOPROXY=off GOSUMDB=off GOTOOLCHAIN=local
mkdir -p bin evidence .work replays
(cd engine && go build -o ../bin/govc .)
(cd trusted/audit && cp /repo/go.sum . 2>/dev/null; go build -o ../../bin/astaudit .)
echo "setup ok"
