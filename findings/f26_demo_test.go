package decoder

import (
	"testing"

	"github.com/hashicorp/hcl-lang/lang"
	"github.com/hashicorp/hcl-lang/reference"
	"github.com/hashicorp/hcl-lang/schema"
	"github.com/hashicorp/hcl/v2"
	"github.com/hashicorp/hcl/v2/hclsyntax"
	"github.com/zclconf/go-cty/cty"
)

// F26: in a body collected as data (InferBody), the target of the FIRST block of a list (or map)
// of nested blocks does not keep its own extent: the range pointer of the whole list aliases the
// first element's, and is then stretched over the following blocks.
func TestF26(t *testing.T) {
	cfg := `x "a" {
  foo {
  }
  foo {
  }
  foo {
  }
}
`
	bodySchema := &schema.BodySchema{Blocks: map[string]*schema.BlockSchema{
		"x": {
			Labels: []*schema.LabelSchema{{Name: "name"}},
			Address: &schema.BlockAddrSchema{
				Steps:      []schema.AddrStep{schema.StaticStep{Name: "x"}, schema.LabelStep{Index: 0}},
				BodyAsData: true,
				InferBody:  true,
			},
			Body: &schema.BodySchema{Blocks: map[string]*schema.BlockSchema{
				"foo": {Type: schema.BlockTypeList, Body: &schema.BodySchema{Attributes: map[string]*schema.AttributeSchema{
					"a": {Constraint: schema.LiteralType{Type: cty.String}, IsOptional: true},
				}}},
			}},
		},
	}}
	f, diags := hclsyntax.ParseConfig([]byte(cfg), "test.tf", hcl.InitialPos)
	if diags.HasErrors() {
		t.Fatal(diags)
	}
	d := testPathDecoder(t, &PathContext{Schema: bodySchema, Files: map[string]*hcl.File{"test.tf": f}})
	targets, err := d.CollectReferenceTargets()
	if err != nil {
		t.Fatal(err)
	}
	var walk func(ts reference.Targets)
	found := 0
	walk = func(ts reference.Targets) {
		for _, tg := range ts {
			if len(tg.Addr) == 4 {
				if idx, ok := tg.Addr[3].(lang.IndexStep); ok && tg.RangePtr != nil {
					found++
					n, _ := idx.Key.AsBigFloat().Int64()
					// block i occupies lines 2+2i .. 3+2i
					wantStart, wantEnd := 2+2*int(n), 3+2*int(n)
					if tg.RangePtr.Start.Line != wantStart || tg.RangePtr.End.Line != wantEnd {
						t.Errorf("%s: range %v, the block itself is on lines %d-%d", tg.Addr.String(), tg.RangePtr, wantStart, wantEnd)
					}
				}
			}
			walk(tg.NestedTargets)
		}
	}
	walk(targets)
	if found != 3 {
		t.Fatalf("expected 3 element targets, found %d: %v", found, targets)
	}
}
