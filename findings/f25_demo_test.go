package decoder

import (
	"context"
	"testing"

	"github.com/hashicorp/hcl-lang/lang"
	"github.com/hashicorp/hcl-lang/reference"
	"github.com/hashicorp/hcl-lang/schema"
	"github.com/hashicorp/hcl/v2"
	"github.com/hashicorp/hcl/v2/hclsyntax"
	"github.com/zclconf/go-cty/cty"
)

// F25: in `attr = local.foo[local.bar]` the reference local.foo (the collection of the index
// expression) resolves to a collected target and is reported as a reference origin, but got no
// semantic tokens; only the key local.bar did.
func TestF25(t *testing.T) {
	cfg := "attr = local.foo[local.bar]\n"
	bodySchema := &schema.BodySchema{Attributes: map[string]*schema.AttributeSchema{
		"attr": {Constraint: schema.AnyExpression{OfType: cty.String}},
	}}
	f, _ := hclsyntax.ParseConfig([]byte(cfg), "test.tf", hcl.InitialPos)
	targets := reference.Targets{
		{Addr: lang.Address{lang.RootStep{Name: "local"}, lang.AttrStep{Name: "foo"}}, Type: cty.Map(cty.String)},
		{Addr: lang.Address{lang.RootStep{Name: "local"}, lang.AttrStep{Name: "bar"}}, Type: cty.String},
	}
	d := testPathDecoder(t, &PathContext{
		Schema:           bodySchema,
		Files:            map[string]*hcl.File{"test.tf": f},
		ReferenceTargets: targets,
	})
	origins, err := d.CollectReferenceOrigins()
	if err != nil {
		t.Fatal(err)
	}
	d.pathCtx.ReferenceOrigins = origins
	tokens, err := d.SemanticTokensInFile(context.Background(), "test.tf")
	if err != nil {
		t.Fatal(err)
	}
	for _, o := range origins {
		covered := false
		for _, tok := range tokens {
			if tok.Type == lang.TokenReferenceStep && o.OriginRange().ContainsPos(tok.Range.Start) {
				covered = true
			}
		}
		if !covered {
			t.Errorf("reference %v is an origin but has no reference-step token (tokens: %v)", o.OriginRange(), tokens)
		}
	}
}
