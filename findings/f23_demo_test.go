package decoder

import (
	"testing"

	"github.com/hashicorp/hcl-lang/schema"
	"github.com/hashicorp/hcl/v2"
	"github.com/hashicorp/hcl/v2/hclsyntax"
	"github.com/zclconf/go-cty/cty"
	"github.com/zclconf/go-cty/cty/function"
)

func TestF23(t *testing.T) {
	fns := map[string]schema.FunctionSignature{"f3": {Params: []function.Parameter{{Name: "a", Type: cty.String}, {Name: "b", Type: cty.String}, {Name: "c", Type: cty.String}}, ReturnType: cty.String}}
	for _, tc := range []struct {
		cfg  string
		byte int
		want uint32
	}{
		{`x = f3(a, b , c)`, 11, 1}, // f3(a, b| , c)
		{`x = f3(a, b , c)`, 12, 1}, // f3(a, b |, c)
		{`x = f3(a, b, c)`, 12, 2},  // after the second comma
		{`x = f3(a,  b, c)`, 10, 1}, // f3(a, | b, c)
	} {
		f, _ := hclsyntax.ParseConfig([]byte(tc.cfg), "test.tf", hcl.InitialPos)
		d := testPathDecoder(t, &PathContext{Files: map[string]*hcl.File{"test.tf": f}, Functions: fns})
		sig, err := d.SignatureAtPos("test.tf", hcl.Pos{Line: 1, Column: tc.byte + 1, Byte: tc.byte})
		if err != nil || sig == nil {
			t.Errorf("%q@%d: no signature (%v)", tc.cfg, tc.byte, err)
			continue
		}
		if sig.ActiveParameter != tc.want {
			t.Errorf("%q@%d: active parameter %d, want %d", tc.cfg, tc.byte, sig.ActiveParameter, tc.want)
		}
	}
}
