package decoder

import (
	"context"
	"testing"

	"github.com/hashicorp/hcl-lang/schema"
	"github.com/hashicorp/hcl/v2"
	"github.com/hashicorp/hcl/v2/hclsyntax"
)

// F24: with the cursor directly in front of the opening parenthesis of a type declaration
// (attr = list|(), object|(), tuple|(), map|(...)) the candidates for the inside of the
// parentheses were offered, with an edit that starts behind the cursor.
func TestF24(t *testing.T) {
	for _, tc := range []struct {
		cfg  string
		byte int
	}{
		{"attr = list()\n", 11},
		{"attr = set()\n", 10},
		{"attr = map()\n", 10},
		{"attr = object()\n", 13},
		{"attr = tuple()\n", 12},
		{"attr = tuple(\n", 12},
		{"attr = object(\n", 13},
	} {
		bodySchema := &schema.BodySchema{Attributes: map[string]*schema.AttributeSchema{"attr": {Constraint: schema.TypeDeclaration{}}}}
		f, _ := hclsyntax.ParseConfig([]byte(tc.cfg), "test.tf", hcl.InitialPos)
		d := testPathDecoder(t, &PathContext{
			Schema: bodySchema,
			Files:  map[string]*hcl.File{"test.tf": f},
		})
		pos := hcl.Pos{Line: 1, Column: tc.byte + 1, Byte: tc.byte}
		cands, err := d.CompletionAtPos(context.Background(), "test.tf", pos)
		if err != nil {
			t.Fatal(err)
		}
		for _, c := range cands.List {
			r := c.TextEdit.Range
			if r.Start.Byte > r.End.Byte || r.Start.Byte > pos.Byte || r.End.Byte < pos.Byte {
				t.Errorf("%q @%d: candidate %q edit range %v does not hold the cursor", tc.cfg, tc.byte, c.Label, r)
			}
		}
	}
}
