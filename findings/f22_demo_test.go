package decoder

import (
	"context"
	"testing"

	"github.com/hashicorp/hcl-lang/lang"
	"github.com/hashicorp/hcl-lang/reference"
	"github.com/hashicorp/hcl-lang/schema"
	"github.com/hashicorp/hcl/v2"
	"github.com/hashicorp/hcl/v2/hclsyntax"
	"github.com/zclconf/go-cty/cty"
)

func TestF22(t *testing.T) {
	for _, cons := range []schema.Constraint{
		schema.Reference{OfType: cty.String},
		schema.LiteralType{Type: cty.Bool},
		schema.AnyExpression{OfType: cty.String},
		schema.Keyword{Keyword: "local"},
		schema.LiteralValue{Value: cty.StringVal("local.x")},
		schema.List{Elem: schema.LiteralType{Type: cty.Bool}},
	} {
		for _, cfg := range []string{"attr =  local.f\n", "attr =  tr\n", "attr =  [tr]\n", "attr =  lo\n"} {
			bodySchema := &schema.BodySchema{Attributes: map[string]*schema.AttributeSchema{"attr": {Constraint: cons}}}
			f, _ := hclsyntax.ParseConfig([]byte(cfg), "test.tf", hcl.InitialPos)
			d := testPathDecoder(t, &PathContext{
				Schema: bodySchema,
				Files:  map[string]*hcl.File{"test.tf": f},
				ReferenceTargets: reference.Targets{{Addr: lang.Address{lang.RootStep{Name: "local"}, lang.AttrStep{Name: "foo"}}, Type: cty.String}},
			})
			cands, err := d.CompletionAtPos(context.Background(), "test.tf", hcl.Pos{Line: 1, Column: 7, Byte: 6})
			if err != nil {
				t.Fatal(err)
			}
			for _, c := range cands.List {
				if c.TextEdit.Range.Start.Byte > c.TextEdit.Range.End.Byte || c.TextEdit.Range.Start.Byte > 6 {
					t.Errorf("%T %q: candidate %q edit range %v", cons, cfg, c.Label, c.TextEdit.Range)
				}
			}
		}
	}
}
