#!/bin/bash
# runs every claimed check (quick) on the current /repo tree and validates the evidence files
cd /verif
tier=${1:-quick}
ids=$(python3 -c "import json; print(' '.join(c['property_id'] for c in json.load(open('MANIFEST.json'))['checks']))")
rc=0
for id in $ids; do
  out=$(./check $id $tier 2>&1); r=$?
  echo "$out" | grep -E "^VIOLATION|^KNOWN|^property=" | cut -c1-300
  [ $r -ne 0 ] && rc=1
  python3-vt - <<PY || rc=1
import json,jsonschema,sys
e=json.load(open('/verif/evidence/$id.json'))
jsonschema.validate(e,json.load(open('/root/.vp/EVIDENCE.schema.json')))
c=e['coverage']
assert c['obligations']==c['discharged'], (c['obligations'],c['discharged'])
PY
done
exit $rc
