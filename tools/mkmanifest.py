#!/usr/bin/env python3
"""Regenerates /verif/MANIFEST.json from the table below (kept here so that it stays valid at all times)."""
import json, subprocess
props=[json.loads(l) for l in open('/verif/properties.jsonl')]
TECH="contract-based deductive verification: weakest-precondition style VCs generated from go/ssa of the real packages, contracts in guarded comment files, obligations discharged by z3/cvc5"
NOTE_COMMON=("Trusted: Go type checker, x/tools go/ssa v0.29.0, the govc generator, z3 5.1.0 / z3 4.8.12 / cvc5 1.0.3; integers mathematical; string contents uninterpreted; "
 "hclsyntax AST well-formedness lines of /verif/trusted/base.spec (assumed, listed per run in the evidence); dependency code neither panics outside inlined bodies/trusted preconditions nor writes through its arguments. "
 "Only obligations in /verif/baseline/<id>.json (those that discharge on the pinned tree) are counted as proved; the others are listed as unproved_not_claimed in the evidence. "
 "Besides the clauses tagged with the property, a check carries the SAFE/FRAME obligations of the functions in the property's anchor files, the FRAME obligations of every hcl-lang function they call and the COPY obligations of the Copy methods they use (callers are verified against those contracts). "
 "Quick tier: obligations not discharged on the pinned tree and clauses of other properties get one short solver attempt; thorough tier: full limits, cross-solver check, mutation canaries (at most 8 seeded changes per run, rotating with VERIF_SEED), audit of the trusted facts.")
claimed={
 "C01":("Panic freedom: one SAFE obligation per potentially panicking instruction (index, slice, nil dereference, nil map write, unchecked type assertion, division, explicit panic, nil receiver at call sites, panicking instructions of inlined dependency functions) of every function of the nine packages, for all inputs admitted by the stated type invariants and for every iteration (loops are cut with invariants). Proved for the claimed obligations only; termination of recursion is not proved.",
        "DESIGN.md §3.1, §7 C01"),
 "C04":("No write to caller-supplied memory: one FRAME obligation per store, map update, in-place append, copy, delete and mutator call (sort.*) of every function: the written object was allocated during the call (or is named by the function's modifies clause). Freshness of derived schemas comes from the generated contracts of the Copy methods, which are themselves proved (COPY).",
        "DESIGN.md §3.4, §7 C04"),
 "C05":("Sufficient condition for race freedom: the same FRAME obligations as C04 (no query writes memory that existed before it started, so concurrent queries only read shared state) plus absence of goroutines/sync in the verified packages; interleavings are not enumerated.",
        "DESIGN.md §7 C05"),
 "C17":("Copy(): contracts generated from the receiver type's definition, one obligation per field and kind (value equality, nil-ness, dynamic type kept, container freshly allocated, length kept, elements freshly allocated / equal, keys from the source), proved on the real Copy bodies with automatically synthesised element-wise loop invariants; the SAFE obligations of the Copy methods (a Copy that panics yields no copy). Refuted COPY obligations are replayed on the real code with receivers built from the type definition.",
        "DESIGN.md §3.6, §7 C17"),
}
reasons_na={
 "C18":"relates two whole runs on two different texts through the HCL lexer/parser; no contract on hcl-lang functions can state it without a verified parser model (its hcl-lang part, shift-consistent position arithmetic, is decided under C02).",
 "C19":"relates runs on the outputs of two different parsers for 'equivalent' inputs; input equivalence is not expressible over the contracts within reach.",
}
import os
extra=json.load(open('/verif/tools/claims.json')) if os.path.exists('/verif/tools/claims.json') else {}
for k,v in extra.get('claimed',{}).items(): claimed[k]=tuple(v)
for k,v in extra.get('not_applicable',{}).items(): reasons_na[k]=v
checks=[]
for p in props:
    i=p['id']
    if i in claimed:
        text,ref=claimed[i]
        checks.append({"property_id":i,"quick_cmd":"./check %s quick"%i,"thorough_cmd":"./check %s thorough"%i,
          "evidence_file":"/verif/evidence/%s.json"%i,"replay_cmd_template":"./check --replay {path}","engine":"govc",
          "level_claimed":{"category":"proof","text":text,"design_ref":ref},"level_note":NOTE_COMMON,"technique":TECH})
na=[{"property_id":p['id'],"reason":reasons_na.get(p['id'],"check not built yet (engine under construction); see DESIGN.md")} for p in props if p['id'] not in claimed]
commits=subprocess.run(['git','-C','/repo','log','--format=%H %s','bb575cd..HEAD'],capture_output=True,text=True).stdout.strip().split('\n')
hooks=[c.split()[0] for c in commits if c and ' verif:' in c]
m={"version":1,"setup_cmd":"./setup.sh",
 "hooks":{"guard":"verif","enable":"govc loads /repo with go/packages BuildFlags -tags=verif; the guarded files zz_verif_contracts*.go (one or more per package) are comment-only (package clause + //@ contract lines) and add no code",
   "baseline_off_cmd":"cd /repo && GOFLAGS=-mod=mod go test -vet=off -count=1 -timeout 25m ./...","source_commits":hooks,"add_only":True},
 "engines":[{"name":"govc","path":"/verif/engine","serves_properties":sorted(claimed),"kind_free_text":"verification-condition generator over go/ssa of the real packages; contracts in guarded comment files in /repo plus generated COPY contracts; obligations discharged by z3 5.1.0 / z3 4.8.12 / cvc5 1.0.3"}],
 "checks":checks,"notes":"see DESIGN.md section 0; ./check <id> quick|thorough; ./check --replay <file>; known findings in KNOWN_FINDINGS.json; seeded changes in seeded/, behaviour-preserving changes in benign/","not_applicable":na}
json.dump(m,open('/verif/MANIFEST.json','w'),indent=1)
print("claimed",sorted(claimed),"hooks",hooks)
