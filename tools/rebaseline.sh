#!/bin/bash
# re-records the claimed sets (baselines) of the given properties (default: all claimed) from the current
# /repo tree. Only to be run on the pinned/repaired tree, never with a change under test applied.
cd /verif
export GOFLAGS=-mod=mod GOPROXY=off GOSUMDB=off GOTOOLCHAIN=local VERIF_ROOT=/verif
ids=${@:-$(python3 -c "import json; print(' '.join(c['property_id'] for c in json.load(open('MANIFEST.json'))['checks']))")}
for id in $ids; do
  bin/govc check -p $id -write-baseline -no-evidence 2>&1 | grep -E "^property=|baseline" | cut -c1-200
done
