#!/usr/bin/env python3
# prints, per claimed property, the number of claimed obligations in its baseline and how many of them come
# from contract clauses (POST, COPY, NONDET, declared LOOP invariants) - the two numeric columns of
# DESIGN.md section 0.4; with --patch rewrites those columns in DESIGN.md
import json, re, sys, glob, os
rows = {}
for f in sorted(glob.glob('/verif/baseline/C*.json')):
    b = json.load(open(f)); pid = os.path.basename(f)[:-5]
    n = len(b['claimed']); c = 0
    for name in b['claimed']:
        m = re.search(r'#([A-Z]+):([a-z-]+):', name)
        if not m: continue
        fam = m.group(1)
        if fam in ('POST', 'COPY', 'NONDET') or (fam == 'LOOP' and ' auto ' not in name):
            c += 1
    rows[pid] = (n, c)
    print(pid, n, c)
if '--patch' in sys.argv:
    p = '/verif/DESIGN.md'; s = open(p).read()
    def fmt(n): return f'{n:,}'.replace(',', ' ')
    out = []
    for l in s.split('\n'):
        m = re.match(r'^\| (C\d+)(, C\d+)? \| [\d ]+ \| ([\d -]+) \| (.*)$', l)
        if m and m.group(1) in rows:
            n, c = rows[m.group(1)]
            cc = '-' if m.group(3).strip() == '-' else fmt(c)
            l = f'| {m.group(1)}{m.group(2) or ""} | {fmt(n)} | {cc} | {m.group(4)}'
        out.append(l)
    open(p, 'w').write('\n'.join(out))
