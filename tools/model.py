#!/usr/bin/env python3
"""model.py <dump.smt2> <obligation-name-substring> [terms...]: re-runs one obligation of a govc dump and prints the model values of the given terms (default: all t* constants of the top frame in the query)."""
import sys,re,subprocess
src=open(sys.argv[1]).read(); key=sys.argv[2]
i=src.index(key); i=src.rfind('\n; ',0,i)+1
j=src.index('(pop 1)',i)
pre=re.sub(r'; [^\n]*\n\(push 1\).*?\(pop 1\)\n','',src[:i],flags=re.S)
q=src[i:j]
terms=sys.argv[3:] or sorted(set(re.findall(r'(?<![\w_])(t\d+|p_\w+)(?![\w_])',q)))
out=subprocess.run(['z3-new','-in','-t:10000'],input=pre+q+'(get-value (%s))\n'%' '.join(terms),capture_output=True,text=True).stdout
print(q[:1500]); print(out[:4000])
