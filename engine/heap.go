package main

import (
	"fmt"
	"strings"
)

// Heaps are never SMT arrays. A heap "view" is a stack of layers over uninterpreted base
// functions; select is expanded by the encoder into ite terms (quantifier-free, model-producing).

type Loc []string

func (l Loc) key() string { return strings.Join(l, "\x00") }

type View interface{}

type vBase struct {
	fn string
	ub string // every ref stored in this heap is < ub
	// keep: objects whose address never escapes the function keep their contents (prev) across a havoc by
	// unknown code
	keep View
}
type vStore struct {
	prev View
	loc  Loc
	val  string
}
type vMerge struct { // loc[0] < bound: prev; else fresh fn
	prev  View
	fn    string
	bound string
	ub    string
	keep  map[string]bool // objects known to be untouched (private allocations the loop never stores to)
}
type vJoin struct {
	conds []string
	views []View
}
type vFill struct { // every cell of object arr holds val (fresh zeroed slice, empty map)
	prev View
	arr  string
	val  string
	fn   string // non-empty: cells hold arbitrary values (fn loc...)
	ub   string
}
type vCopy struct { // elements [dOff, dOff+n) of array dArr are copied from src[sArr][sOff...]
	prev           View
	dArr, dOff, n  string
	src            View
	sArr, sOff     string
}

type stKind int

const (
	sInit stKind = iota
	sStore
	sCopy
	sFill
	sCall
	sJoin
	sLoop
	sHavoc
)

// State is a persistent chain of heap operations; view(heap) is computed lazily.
type State struct {
	kind  stKind
	prev  *State
	heap  string
	loc   Loc
	val   string
	cp    *vCopy
	bound string // sCall: havoc at refs >= bound
	id    int
	fn    string
	conds []string
	preds []*State
	// sLoop
	stored     map[string]bool // heaps written in the loop (frame-checked): havoc >= a0
	full       map[string]bool // heaps havocked completely
	a0         string
	touchesAll bool // loop contains calls/allocations: other heaps havoc >= entry nxt
	nxt        string
	keep       map[string]bool
	memo       map[string]View
	ver        int // heap version: changes with every write or havoc, not with allocation
	verOld     int // version of the memory that existed before the current function was called
	uid        int
	verMemo    map[string]int
}

type heapSig struct {
	args []string
	res  string
}

func (e *Enc) newState(k stKind, prev *State) *State {
	s := &State{kind: k, prev: prev, memo: map[string]View{}}
	if prev != nil {
		s.nxt = prev.nxt
	}
	e.verCtr++
	s.ver = e.verCtr
	s.uid = e.verCtr
	if prev != nil {
		s.verOld = prev.verOld
	}
	if e.writesOld && (k == sStore || k == sCopy || k == sFill || k == sHavoc) {
		s.verOld = e.verCtr // the function is allowed to write pre-existing memory (modifies clause)
	}
	return s
}

func (e *Enc) declHeapFn(fn, heap string) {
	sig := e.heaps[heap]
	e.d.decl(fn, "("+strings.Join(sig.args, " ")+") "+sig.res)
}

func (e *Enc) view(s *State, heap string) View {
	if v, ok := s.memo[heap]; ok {
		return v
	}
	var v View
	switch s.kind {
	case sInit:
		fn := "H0_" + heap
		e.declHeapFn(fn, heap)
		v = &vBase{fn: fn, ub: e.a0}
	case sStore:
		p := e.view(s.prev, heap)
		if s.heap == heap {
			v = &vStore{prev: p, loc: s.loc, val: s.val}
		} else {
			v = p
		}
	case sCopy:
		p := e.view(s.prev, heap)
		if s.heap == heap {
			c := *s.cp
			c.prev = p
			v = &c
		} else {
			v = p
		}
	case sFill:
		p := e.view(s.prev, heap)
		if s.heap == heap {
			v = &vFill{prev: p, arr: s.loc[0], val: s.val, fn: s.fn, ub: s.nxt}
		} else {
			v = p
		}
	case sCall:
		p := e.view(s.prev, heap)
		fn := fmt.Sprintf("HC%d_%s", s.id, heap)
		e.declHeapFn(fn, heap)
		v = &vMerge{prev: p, fn: fn, bound: s.bound, ub: s.nxt}
	case sHavoc:
		p := e.view(s.prev, heap)
		if s.heap == heap || s.heap == "*" {
			fn := fmt.Sprintf("HH%d_%s", s.id, heap)
			e.declHeapFn(fn, heap)
			v = &vBase{fn: fn, ub: s.nxt, keep: p}
		} else {
			v = p
		}
	case sLoop:
		p := e.view(s.prev, heap)
		fn := fmt.Sprintf("HL%d_%s", s.id, heap)
		switch {
		case s.full[heap] || s.full["*"]:
			e.declHeapFn(fn, heap)
			v = &vBase{fn: fn, ub: s.nxt}
			if !s.stored[heap] {
				v.(*vBase).keep = p // unknown code in the loop cannot reach private objects
			}
		case s.stored[heap]:
			e.declHeapFn(fn, heap)
			v = &vMerge{prev: p, fn: fn, bound: s.a0, ub: s.nxt, keep: s.keep}
		case s.touchesAll:
			e.declHeapFn(fn, heap)
			v = &vMerge{prev: p, fn: fn, bound: s.prev.nxt, ub: s.nxt, keep: s.keep}
		default:
			v = p
		}
	case sJoin:
		var vs []View
		same := true
		for i, p := range s.preds {
			pv := e.view(p, heap)
			vs = append(vs, pv)
			if i > 0 && pv != vs[0] {
				same = false
			}
		}
		if same {
			v = vs[0]
		} else {
			v = &vJoin{conds: s.conds, views: vs}
		}
	}
	s.memo[heap] = v
	return v
}

func (e *Enc) isOld(t string) bool { return e.oldTerms[t] }

func isNumeral(s string) bool {
	if s == "" {
		return false
	}
	for _, c := range s {
		if c < '0' || c > '9' {
			return false
		}
	}
	return true
}

// knownDistinct: syntactic disequality that is valid in the logic.
func (e *Enc) knownDistinct(a, b string) bool {
	if a == b {
		return false
	}
	if isNumeral(a) && isNumeral(b) {
		return true
	}
	if (e.isOld(a) && e.allocTerms[b]) || (e.isOld(b) && e.allocTerms[a]) {
		return true
	}
	return false
}

// sel expands select(view, loc).
func (e *Enc) sel(v View, heap string, loc Loc) string {
	type mk struct {
		v View
		k string
	}
	key := mk{v, loc.key()}
	if t, ok := e.selMemo[key]; ok {
		return t
	}
	var out string
	switch x := v.(type) {
	case *vBase:
		if x.keep != nil && e.privateRefs[loc[0]] {
			out = e.sel(x.keep, heap, loc)
			break
		}
		out = "(" + x.fn + " " + strings.Join(loc, " ") + ")"
		e.refBound(heap, out, x.ub)
	case *vStore:
		same := true
		distinct := false
		var eqs []string
		for i := range loc {
			if loc[i] != x.loc[i] {
				same = false
				if e.knownDistinct(loc[i], x.loc[i]) {
					distinct = true
				}
				eqs = append(eqs, "(= "+loc[i]+" "+x.loc[i]+")")
			}
		}
		switch {
		case same:
			out = x.val
		case distinct:
			out = e.sel(x.prev, heap, loc)
		default:
			c := eqs[0]
			if len(eqs) > 1 {
				c = "(and " + strings.Join(eqs, " ") + ")"
			}
			out = "(ite " + c + " " + x.val + " " + e.sel(x.prev, heap, loc) + ")"
		}
	case *vMerge:
		if e.isOld(loc[0]) || x.keep[loc[0]] {
			out = e.sel(x.prev, heap, loc)
		} else {
			f := "(" + x.fn + " " + strings.Join(loc, " ") + ")"
			e.refBound(heap, f, x.ub)
			out = "(ite (< " + loc[0] + " " + x.bound + ") " + e.sel(x.prev, heap, loc) + " " + f + ")"
		}
	case *vFill:
		val := x.val
		if x.fn != "" {
			val = "(" + x.fn + " " + strings.Join(loc, " ") + ")"
			e.refBound(heap, val, x.ub)
		}
		switch {
		case loc[0] == x.arr:
			out = val
		case e.knownDistinct(loc[0], x.arr):
			out = e.sel(x.prev, heap, loc)
		default:
			out = "(ite (= " + loc[0] + " " + x.arr + ") " + val + " " + e.sel(x.prev, heap, loc) + ")"
		}
	case *vCopy:
		in := fmt.Sprintf("(and (= %s %s) (<= %s %s) (< %s (+ %s %s)))", loc[0], x.dArr, x.dOff, loc[1], loc[1], x.dOff, x.n)
		src := e.sel(x.src, heap, Loc{x.sArr, fmt.Sprintf("(+ %s (- %s %s))", x.sOff, loc[1], x.dOff)})
		out = "(ite " + in + " " + src + " " + e.sel(x.prev, heap, loc) + ")"
	case *vJoin:
		t := e.sel(x.views[len(x.views)-1], heap, loc)
		for i := len(x.views) - 2; i >= 0; i-- {
			t = "(ite " + x.conds[i] + " " + e.sel(x.views[i], heap, loc) + " " + t + ")"
		}
		if e.quant > 0 {
			out = t // under a binder: the term may mention the bound variable, so it cannot be named
		} else {
			n := e.freshConst("ld", e.heaps[heap].res)
			e.define(n, t)
			out = n
		}
	}
	e.selMemo[key] = out
	e.undo = append(e.undo, func() { delete(e.selMemo, key) })
	return out
}

// refBound records that a ref read from the heap is older than ub (heap closure).
func (e *Enc) refBound(heap, term, ub string) {
	if ub == "" {
		return
	}
	switch e.heaps[heap].res {
	case "Int":
		if e.heapRef[heap] {
			e.assume("(< " + term + " " + ub + ")")
		}
	case "Slice":
		e.assume("(< (sarr " + term + ") " + ub + ")")
		e.assume(sliceWF(term))
	case "Iface":
		// a pointer held in an interface cell of the heap is older than the heap's allocation bound
		e.d.decl("ptrtag", "(Int) Bool")
		e.assume(fmt.Sprintf("(=> (ptrtag (itag %s)) (< (ival %s) %s))", term, term, ub))
	}
}

func sliceWF(s string) string {
	return fmt.Sprintf("(and (<= 0 (slen %s)) (<= (slen %s) (scap %s)) (<= 0 (soff %s)) (<= 0 (sarr %s)) (=> (= (sarr %s) 0) (= (scap %s) 0)))", s, s, s, s, s, s, s)
}

// verOf: identity of the last state that may have changed the contents of pre-existing or reachable cells
// of one heap (a store, a copy, a fill, a havoc, a loop that writes it). Calls that respect the default
// frame do not change any object that existed before them.
func (e *Enc) verOf(s *State, heap string) int {
	if s == nil {
		return 0
	}
	if s.verMemo == nil {
		s.verMemo = map[string]int{}
	}
	if v, ok := s.verMemo[heap]; ok {
		return v
	}
	var v int
	switch s.kind {
	case sInit:
		v = 0
	case sStore, sCopy, sFill:
		if s.heap == heap && !(len(s.loc) > 0 && e.privateRefs[s.loc[0]]) {
			v = s.uid
		} else {
			v = e.verOf(s.prev, heap)
		}
	case sHavoc:
		if s.heap == heap || s.heap == "*" {
			v = s.uid
		} else {
			v = e.verOf(s.prev, heap)
		}
	case sCall:
		v = e.verOf(s.prev, heap)
	case sLoop:
		if s.stored[heap] || s.full[heap] || s.full["*"] {
			v = s.uid
		} else {
			v = e.verOf(s.prev, heap)
		}
	case sJoin:
		v = -1
		for i, p := range s.preds {
			pv := e.verOf(p, heap)
			if i == 0 {
				v = pv
			} else if pv != v {
				v = s.uid
				break
			}
		}
	}
	s.verMemo[heap] = v
	return v
}
