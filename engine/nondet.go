package main

import (
	"fmt"
	"go/types"
	"sort"
	"strings"

	"golang.org/x/tools/go/ssa"
)

// NONDET family (C03): sequential Go is deterministic except for map iteration order and the
// behaviour of sort on comparators that are not strict weak orders (and on ties for unstable sorts).
// Every such site of the nine packages is enumerated on SSA and gets obligations.

var sortFuncs = map[string]bool{"sort.Sort": true, "sort.Stable": true, "sort.Slice": true, "sort.SliceStable": true, "sort.Strings": true, "sort.Ints": true}

func isSortCall(c *ssa.CallCommon) string {
	if f := c.StaticCallee(); f != nil && sortFuncs[shortName(f)] {
		return shortName(f)
	}
	return ""
}

func nondetObligations(w *World, spec *Specs, opt solveOpts) []*extraResult {
	var out []*extraResult
	for _, f := range w.funcs {
		seen := map[string]int{}
		for _, b := range f.Blocks {
			for _, in := range b.Instrs {
				c, ok := in.(*ssa.Call)
				if !ok {
					continue
				}
				if name := isSortCall(c.Common()); name != "" {
					if r := swoSite(w, spec, f, c, name, opt); r != nil {
						// several sort calls with the same source text in one function: keep the names apart
						key := ""
						if len(r.obs) > 0 {
							key = r.obs[0].Name
						}
						seen[key]++
						if seen[key] > 1 {
							for _, o := range r.obs {
								o.Name += fmt.Sprintf("@site%d", seen[key])
							}
						}
						out = append(out, r)
					}
				}
			}
		}
		out = append(out, mapRangeSites(w, spec, f)...)
	}
	return out
}

// ---- comparators are strict weak orders --------------------------------------------------------------

func unwrapIface(v ssa.Value) ssa.Value {
	for {
		switch x := v.(type) {
		case *ssa.MakeInterface:
			v = x.X
		case *ssa.ChangeType:
			v = x.X
		case *ssa.ChangeInterface:
			v = x.X
		default:
			return v
		}
	}
}

func swoSite(w *World, spec *Specs, f *ssa.Function, c *ssa.Call, name string, opt solveOpts) *extraResult {
	e := newEnc(w, f, spec)
	e.frameOn = false
	e.pureCalls = true
	text := e.exprText(c.Pos(), "call")
	if len(text) > 60 {
		text = text[:60] + "…"
	}
	res := &extraResult{enc: e}
	if name == "sort.Strings" || name == "sort.Ints" {
		o := e.addOb(nil, "NONDET", "swo", c.Pos(), name+" (built-in total order) "+text, "true", true)
		o.Verdict, o.Solver = "unsat", "syntactic"
		res.obs = append(res.obs, o)
		return res
	}
	// ties: with an unstable sort the order of elements the comparator does not distinguish depends on the
	// order they arrive in (which is map order wherever the slice was collected from a map)
	{
		stable := name == "sort.SliceStable" || name == "sort.Stable"
		cond := "false"
		if stable {
			cond = "true"
		}
		o := e.addOb(nil, "NONDET", "stable", c.Pos(), "elements the comparator does not order keep their arrival order: "+text, cond, false)
		if !stable {
			o.Output = "unstable sort: ties are ordered by the input permutation"
		}
		res.obs = append(res.obs, o)
	}
	st := e.newState(sInit, nil)
	st.nxt = "A0"
	var less func(i, j string) (string, bool)
	cc := c.Common()
	switch name {
	case "sort.Slice", "sort.SliceStable":
		mc, ok := cc.Args[1].(*ssa.MakeClosure)
		if !ok {
			res.notes = append(res.notes, "comparator is not a closure literal: "+text)
			o := e.addOb(nil, "NONDET", "swo", c.Pos(), "comparator not analysable "+text, "false", false)
			o.Verdict = "unknown"
			res.obs = append(res.obs, o)
			return res
		}
		fn := mc.Fn.(*ssa.Function)
		// captured cells: symbolic, shared by all invocations
		fvs := make([]string, len(fn.FreeVars))
		for i := range fn.FreeVars {
			n := e.freshConst("cmp_fv", "Int")
			e.assume("(and (> " + n + " 0) (< " + n + " A0))")
			e.oldTerms[n] = true
			fvs[i] = n
		}
		less = func(i, j string) (string, bool) {
			rs, _ := e.inlineFnB(nil, st, fn, []string{i, j}, nil, nil, false, func(nf *Frame) {
				for k, fv := range fn.FreeVars {
					nf.vals[fv] = fvs[k]
				}
			})
			if len(rs) != 1 {
				return "", false
			}
			return rs[0], true
		}
	default: // sort.Sort / sort.Stable
		x := unwrapIface(cc.Args[0])
		T := x.Type()
		var lessFn *ssa.Function
		for _, tt := range []types.Type{T, types.NewPointer(T)} {
			ms := w.prog.MethodSets.MethodSet(tt)
			if sel := ms.Lookup(nil, "Less"); sel != nil {
				lessFn = w.prog.MethodValue(sel)
				break
			}
		}
		if lessFn == nil || lessFn.Synthetic != "" && len(lessFn.Blocks) == 0 {
			o := e.addOb(nil, "NONDET", "swo", c.Pos(), "no Less method "+text, "false", false)
			o.Verdict = "unknown"
			res.obs = append(res.obs, o)
			return res
		}
		recv := e.freshConst("cmp_recv", e.d.sortOf(lessFn.Params[0].Type()))
		e.typeFacts(lessFn.Params[0].Type(), recv, false)
		e.markOld(lessFn.Params[0].Type(), recv)
		less = func(i, j string) (string, bool) {
			rs, _ := e.inlineFnB(nil, st, lessFn, []string{recv, i, j}, nil, nil, false, nil)
			if len(rs) != 1 {
				return "", false
			}
			return rs[0], true
		}
	}
	a, b, cidx := e.freshConst("ia", "Int"), e.freshConst("ib", "Int"), e.freshConst("ic", "Int")
	e.assume("(and (<= 0 " + a + ") (<= 0 " + b + ") (<= 0 " + cidx + "))")
	pairs := [][2]string{{a, a}, {a, b}, {b, a}, {b, c0(cidx)}, {c0(cidx), b}, {a, c0(cidx)}, {c0(cidx), a}}
	lt := map[[2]string]string{}
	e.noSpecInline = true
	for _, p := range pairs {
		e.cur = "true"
		t, ok := less(p[0], p[1])
		if !ok {
			o := e.addOb(nil, "NONDET", "swo", c.Pos(), "comparator not analysable "+text, "false", false)
			o.Verdict = "unknown"
			res.obs = append(res.obs, o)
			return res
		}
		lt[p] = t
	}
	e.cur = "true"
	L := func(x, y string) string { return lt[[2]string{x, y}] }
	ci := cidx
	add := func(kind, cond string) {
		o := e.addOb(nil, "NONDET", "swo-"+kind, c.Pos(), name+" "+text, cond, false)
		res.obs = append(res.obs, o)
	}
	add("irreflexive", "(not "+L(a, a)+")")
	add("asymmetric", "(=> "+L(a, b)+" (not "+L(b, a)+"))")
	add("transitive", "(=> (and "+L(a, b)+" "+L(b, ci)+") "+L(a, ci)+")")
	add("incomparability-transitive", fmt.Sprintf("(=> (and (not %s) (not %s) (not %s) (not %s)) (and (not %s) (not %s)))", L(a, b), L(b, a), L(b, ci), L(ci, b), L(a, ci), L(ci, a)))
	e.finish()
	e.obs = res.obs
	e.solve(opt)
	return res
}

func c0(s string) string { return s }

// ---- map iteration order does not reach results ----------------------------------------------------------

type mrVerdict struct {
	ok     bool
	class  string
	reason string
}

func mapRangeSites(w *World, spec *Specs, f *ssa.Function) []*extraResult {
	var out []*extraResult
	loops := findLoops(f)
	var heads []*ssa.BasicBlock
	for h := range loops {
		heads = append(heads, h)
	}
	sort.Slice(heads, func(i, j int) bool { return loops[heads[i]].ord < loops[heads[j]].ord })
	for _, h := range heads {
		li := loops[h]
		var nx *ssa.Next
		for _, in := range h.Instrs {
			if n, ok := in.(*ssa.Next); ok && !n.IsString {
				nx = n
			}
		}
		if nx == nil {
			continue
		}
		rg, ok := nx.Iter.(*ssa.Range)
		if !ok {
			continue
		}
		if _, isMap := rg.X.Type().Underlying().(*types.Map); !isMap {
			continue
		}
		e := newEnc(w, f, spec)
		v := classifyMapRange(w, spec, f, li, nx)
		text := e.exprText(rg.Pos(), "range")
		if i := strings.Index(text, "{"); i > 0 {
			text = strings.TrimSpace(text[:i])
		}
		if text == "" {
			text = fmt.Sprintf("loop %d", li.ord)
		}
		cond := "false"
		if v.ok {
			cond = "true"
		}
		o := e.addOb(nil, "NONDET", "maprange", rg.Pos(), fmt.Sprintf("%s (loop %d) [%s]", text, li.ord, v.class), cond, false)
		if v.ok {
			o.Verdict, o.Solver = "unsat", "dataflow"
		} else {
			o.Verdict, o.Solver = "sat", "dataflow"
			o.Output = v.reason
		}
		o.trivial = true
		out = append(out, &extraResult{enc: e, obs: []*Oblig{o}, notes: []string{v.reason}})
	}
	return out
}

// classifyMapRange decides by dataflow on SSA whether the iteration order of a map range can reach
// anything but an unordered container or a value that is sorted before any other use.
func classifyMapRange(w *World, spec *Specs, f *ssa.Function, li *loopInfo, nx *ssa.Next) mrVerdict {
	if spec.unorderedOK[shortName(f)+"#"+fmt.Sprint(li.ord)] != "" {
		return mrVerdict{true, "declared-unordered", spec.unorderedOK[shortName(f)+"#"+fmt.Sprint(li.ord)]}
	}
	inLoop := func(in ssa.Instruction) bool { return in.Block() != nil && li.body[in.Block()] }
	// 1. early exits: an exit edge other than the iterator's own "done" edge
	iterDone := map[*ssa.BasicBlock]bool{}
	if ifi, ok := li.head.Instrs[len(li.head.Instrs)-1].(*ssa.If); ok {
		_ = ifi
		for _, s := range li.head.Succs {
			if !li.body[s] {
				iterDone[s] = true
			}
		}
	}
	for b := range li.body {
		for _, s := range b.Succs {
			if !li.body[s] && !(b == li.head && iterDone[s]) {
				// leaving the loop from inside the body: break or goto-exit
				if !exitIsConstant(b, s, li) {
					return mrVerdict{false, "early-exit", "the loop can be left early on an iteration-dependent path (result may depend on which key comes first)"}
				}
			}
		}
		if len(b.Succs) == 0 {
			// return / panic inside the loop
			if r, ok := b.Instrs[len(b.Instrs)-1].(*ssa.Return); ok {
				for _, v := range r.Results {
					if !loopInvariantValue(v, li) {
						return mrVerdict{false, "early-return", "return inside the loop with an iteration-dependent value"}
					}
				}
			}
		}
	}
	// 2. order-sensitive accumulators
	var sinks []ssa.Value // slices whose content order depends on the iteration order
	for _, in := range li.head.Instrs {
		ph, ok := in.(*ssa.Phi)
		if !ok {
			break
		}
		switch ph.Type().Underlying().(type) {
		case *types.Slice:
			sinks = append(sinks, ph)
		case *types.Map, *types.Pointer:
			// containers updated by key / objects: fine
		case *types.Basic:
			bt := ph.Type().Underlying().(*types.Basic)
			if bt.Info()&types.IsString != 0 {
				return mrVerdict{false, "string-accumulator", "a string is built across iterations"}
			}
			if bt.Info()&types.IsInteger != 0 {
				if !commutativeCounter(ph, li) {
					return mrVerdict{false, "int-accumulator", "an integer carried across iterations is not a commutative counter"}
				}
			}
		default:
			if _, isI := ph.Type().Underlying().(*types.Interface); isI {
				return mrVerdict{false, "iface-accumulator", "an interface value (e.g. error/diagnostics) is carried across iterations"}
			}
		}
	}
	for b := range li.body {
		for _, in := range b.Instrs {
			switch x := in.(type) {
			case *ssa.Store:
				switch a := x.Addr.(type) {
				case *ssa.IndexAddr:
					// dst[i] = v with a loop-varying index into a slice defined outside the loop
					if !inLoopValue(a.X, li) || isLoad(a.X) {
						if _, isSlice := a.X.Type().Underlying().(*types.Slice); isSlice && !keyedByIteration(a.Index, nx) {
							sinks = append(sinks, sliceRoot(a.X))
						}
					}
				case *ssa.FieldAddr:
					// obj.f = append(obj.f, ...) on an object that outlives the iteration
					if isAppendResult(x.Val) && !inLoopValue(a.X, li) {
						return mrVerdict{false, "heap-accumulator", "a slice held in a struct field is appended to across iterations: " + x.String()}
					}
				case *ssa.Alloc:
					if isAppendResult(x.Val) && !inLoop(a) {
						sinks = append(sinks, a)
					}
				case *ssa.FreeVar:
					if isAppendResult(x.Val) {
						return mrVerdict{false, "captured-accumulator", "a captured slice is appended to across iterations"}
					}
				}
			}
		}
	}
	// every sink must be sorted right after the loop, before any other use
	for _, s := range sinks {
		if s == nil {
			return mrVerdict{false, "unknown-sink", "an order-dependent slice could not be tracked"}
		}
		if !sortedBeforeUse(f, s, li, spec) {
			return mrVerdict{false, "unsorted", "the slice " + s.Name() + " built in map order is used before being sorted"}
		}
	}
	if len(sinks) > 0 {
		return mrVerdict{true, "sorted-before-use", ""}
	}
	return mrVerdict{true, "keyed-or-commutative", ""}
}

func isLoad(v ssa.Value) bool {
	u, ok := v.(*ssa.UnOp)
	return ok && u.Op.String() == "*"
}

func inLoopValue(v ssa.Value, li *loopInfo) bool {
	in, ok := v.(ssa.Instruction)
	return ok && in.Block() != nil && li.body[in.Block()]
}

func loopInvariantValue(v ssa.Value, li *loopInfo) bool {
	switch v.(type) {
	case *ssa.Const, *ssa.Parameter, *ssa.Global, *ssa.Function, *ssa.FreeVar:
		return true
	}
	return !inLoopValue(v, li)
}

// exitIsConstant: the code reached through this exit edge returns only loop-invariant values and
// the exit does not carry an iteration-dependent value out of the loop through a phi.
func exitIsConstant(from, to *ssa.BasicBlock, li *loopInfo) bool {
	pi := predIndex(to, from)
	for _, in := range to.Instrs {
		ph, ok := in.(*ssa.Phi)
		if !ok {
			break
		}
		if pi >= 0 && !loopInvariantValue(ph.Edges[pi], li) {
			return false
		}
	}
	return true
}

func commutativeCounter(ph *ssa.Phi, li *loopInfo) bool {
	for i, e := range ph.Edges {
		p := ph.Block().Preds[i]
		if !li.body[p] {
			continue
		}
		if e == ssa.Value(ph) {
			continue
		}
		bo, ok := e.(*ssa.BinOp)
		if !ok {
			// a phi merging "ph" and "ph+1" inside the body
			if ph2, ok := e.(*ssa.Phi); ok {
				good := true
				for _, e2 := range ph2.Edges {
					if e2 == ssa.Value(ph) {
						continue
					}
					if b2, ok := e2.(*ssa.BinOp); ok && (b2.Op.String() == "+" || b2.Op.String() == "-") && (b2.X == ssa.Value(ph) || b2.X == ssa.Value(ph2)) {
						continue
					}
					good = false
				}
				if good {
					continue
				}
			}
			return false
		}
		if !(bo.Op.String() == "+" || bo.Op.String() == "-") || bo.X != ssa.Value(ph) {
			return false
		}
	}
	return true
}

func keyedByIteration(idx ssa.Value, nx *ssa.Next) bool {
	ex, ok := idx.(*ssa.Extract)
	return ok && ex.Tuple == ssa.Value(nx) && ex.Index == 1
}

func isAppendResult(v ssa.Value) bool {
	c, ok := v.(*ssa.Call)
	if !ok {
		return false
	}
	b, ok := c.Call.Value.(*ssa.Builtin)
	return ok && b.Name() == "append"
}

func sliceRoot(v ssa.Value) ssa.Value {
	for {
		switch x := v.(type) {
		case *ssa.Slice:
			v = x.X
		case *ssa.ChangeType:
			v = x.X
		default:
			return v
		}
	}
}

// sortedBeforeUse: the values that carry the accumulator's element order ("tainted": the accumulator, what
// is appended to it later, phis and cells it flows through) are consumed, outside the loop, only after a
// sort call on one of them (sort works in place on the shared backing array, so it fixes every alias).
func sortedBeforeUse(f *ssa.Function, s ssa.Value, li *loopInfo, spec *Specs) bool {
	taint := map[ssa.Value]bool{s: true}
	changed := true
	for changed {
		changed = false
		for _, b := range f.Blocks {
			for _, in := range b.Instrs {
				switch x := in.(type) {
				case *ssa.Store:
					// a tainted value stored into a local variable cell taints the cell
					if taint[x.Val] {
						if al, ok := x.Addr.(*ssa.Alloc); ok && !taint[al] {
							taint[al] = true
							changed = true
						}
					}
					continue
				}
				v, ok := in.(ssa.Value)
				if !ok || taint[v] {
					continue
				}
				t := false
				switch x := in.(type) {
				case *ssa.UnOp:
					t = x.Op.String() == "*" && taint[x.X]
				case *ssa.ChangeType:
					t = taint[x.X]
				case *ssa.MakeInterface:
					t = taint[x.X]
				case *ssa.Slice:
					t = taint[x.X]
				case *ssa.Phi:
					for _, e := range x.Edges {
						if taint[e] {
							t = true
						}
					}
				case *ssa.Call:
					if bi, ok := x.Call.Value.(*ssa.Builtin); ok && bi.Name() == "append" && len(x.Call.Args) > 0 && taint[x.Call.Args[0]] {
						t = true
					}
				}
				if t {
					taint[v] = true
					changed = true
				}
			}
		}
	}
	var sorts []*ssa.Call
	var consumers []ssa.Instruction
	for _, b := range f.Blocks {
		for _, in := range b.Instrs {
			if _, ok := in.(*ssa.DebugRef); ok {
				continue
			}
			if v, ok := in.(ssa.Value); ok && taint[v] {
				continue // propagates the taint, consumes nothing
			}
			uses := false
			for _, op := range in.Operands(nil) {
				if op != nil && *op != nil && taint[*op] {
					uses = true
				}
			}
			if !uses {
				continue
			}
			switch x := in.(type) {
			case *ssa.Store:
				if _, ok := x.Addr.(*ssa.Alloc); ok && (taint[x.Val] || taint[x.Addr]) {
					continue // assignment to the local variable itself
				}
			case *ssa.Call:
				if isSortCall(x.Common()) != "" {
					sorts = append(sorts, x)
					continue
				}
				if bi, ok := x.Call.Value.(*ssa.Builtin); ok && (bi.Name() == "len" || bi.Name() == "cap") {
					continue
				}
			case *ssa.MakeClosure:
				onlySort := true
				for _, r := range *x.Referrers() {
					if c, ok := r.(*ssa.Call); ok && isSortCall(c.Common()) != "" {
						continue
					}
					if _, ok := r.(*ssa.DebugRef); ok {
						continue
					}
					onlySort = false
				}
				if onlySort {
					continue
				}
			case *ssa.BinOp:
				if isNilConst(x.X) || isNilConst(x.Y) {
					continue // nil test
				}
			}
			if li.body[in.Block()] {
				continue // consumers inside the loop are part of the accumulation
			}
			if !li.head.Dominates(in.Block()) {
				continue // before the loop: the initial value
			}
			consumers = append(consumers, in)
		}
	}
	if len(sorts) == 0 {
		return false
	}
	for _, c := range consumers {
		ok := false
		for _, sc := range sorts {
			if !li.body[sc.Block()] && li.head.Dominates(sc.Block()) && instrDominates(sc, c) {
				ok = true
			}
		}
		if !ok {
			return false
		}
	}
	return true
}

func blockAfterLoop(b *ssa.BasicBlock, li *loopInfo) bool {
	// reachable from the loop head without being in the loop
	return li.head.Dominates(b) && !li.body[b]
}

func instrDominates(a, b ssa.Instruction) bool {
	if a.Block() == b.Block() {
		for _, in := range a.Block().Instrs {
			if in == a {
				return true
			}
			if in == b {
				return false
			}
		}
	}
	return a.Block().Dominates(b.Block())
}
