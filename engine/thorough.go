package main

import (
	"encoding/json"
	"fmt"
	"os"
	"os/exec"
	"path/filepath"
	"sort"
	"strings"
)

// Thorough tier, beyond longer solver limits:
//   * mutation canaries: every recorded seeded change of this property that the check is known to catch
//     is applied to a scratch copy of the current tree (outside /repo and /verif, removed afterwards) and
//     the check must report a violation there. A canary that is no longer caught means the check lost
//     decision power (vacuous contract, contract no longer bound, engine defect). Canaries whose patch does
//     not apply to the current tree are skipped and listed.
//   * C17: the executable COPY harness is run on every Copy method of the current tree.

type canaryResult struct {
	Seed     string `json:"seed"`
	Applied  bool   `json:"applied"`
	Detected bool   `json:"detected"`
	Note     string `json:"note,omitempty"`
}

func (r *checkRun) canaries() []canaryResult {
	dirs, _ := filepath.Glob(filepath.Join(r.root, "seeded", "*", "meta.json"))
	sort.Strings(dirs)
	var out []canaryResult
	self, err := os.Executable()
	if err != nil {
		return nil
	}
	// at most canaryCap seeded changes per run (each costs a quick check on a scratch copy); which ones
	// rotates with VERIF_SEED, so repeated thorough runs cover all of them
	const canaryCap = 8
	var sel []string
	for _, m := range dirs {
		var meta struct {
			Property string `json:"property"`
			Detected bool   `json:"detected"`
		}
		if readJSON(m, &meta) == nil && meta.Property == r.prop && meta.Detected {
			sel = append(sel, m)
		}
	}
	if len(sel) > canaryCap {
		off := (r.seed * canaryCap) % len(sel)
		if off < 0 {
			off = -off
		}
		rot := append(append([]string{}, sel[off:]...), sel[:off]...)
		sel = rot[:canaryCap]
		sort.Strings(sel)
	}
	dirs = sel
	for _, m := range dirs {
		var meta struct {
			ID       string `json:"id"`
			Property string `json:"property"`
			Detected bool   `json:"detected"`
		}
		if readJSON(m, &meta) != nil || meta.Property != r.prop || !meta.Detected {
			continue
		}
		patch := filepath.Join(filepath.Dir(m), "patch.diff")
		res := canaryResult{Seed: meta.ID}
		tmp, err := os.MkdirTemp("", "verif-canary-")
		if err != nil {
			res.Note = err.Error()
			out = append(out, res)
			continue
		}
		func() {
			defer os.RemoveAll(tmp)
			cp := exec.Command("rsync", "-a", "--exclude", ".git", r.w.repo+"/", tmp+"/")
			if b, err := cp.CombinedOutput(); err != nil {
				res.Note = "copy failed: " + firstLines(string(b), 2)
				return
			}
			ap := exec.Command("git", "apply", patch)
			ap.Dir = tmp
			if b, err := ap.CombinedOutput(); err != nil {
				res.Note = "patch does not apply to the current tree: " + firstLines(string(b), 1)
				return
			}
			res.Applied = true
			ck := exec.Command(self, "check", "-p", r.prop, "-repo", tmp, "-no-evidence", "-no-replay", "-tier", "quick")
			ck.Env = append(os.Environ(), "VERIF_TIER=quick")
			b, _ := ck.CombinedOutput()
			res.Detected = strings.Contains(string(b), "\nVIOLATION ") || strings.HasPrefix(string(b), "VIOLATION ")
			if !res.Detected {
				res.Note = lastLines(string(b), 2)
			}
		}()
		out = append(out, res)
	}
	return out
}

func lastLines(s string, n int) string {
	ls := strings.Split(strings.TrimSpace(s), "\n")
	if len(ls) > n {
		ls = ls[len(ls)-n:]
	}
	return strings.Join(ls, " | ")
}

type harnessResult struct {
	Function string `json:"function"`
	Result   string `json:"result"`
	Output   string `json:"output,omitempty"`
}

// copyHarnessAll runs the executable COPY harness (bounded: six populated receivers per method).
func (r *checkRun) copyHarnessAll() []harnessResult {
	var out []harnessResult
	for _, f := range r.w.funcs {
		if !isCopyMethod(r.w, f) {
			continue
		}
		rt := r.copyReplay(f)
		if rt == nil {
			continue
		}
		h := harnessResult{Function: shortName(f)}
		if err := runReplay(r.w.repo, rt); err != nil {
			h.Result = "error: " + err.Error()
		} else if rt.Failed {
			h.Result = "fail"
			h.Output = firstLines(rt.Output, 8)
		} else if strings.Contains(rt.Output, "ok  ") {
			h.Result = "ok"
		} else {
			h.Result = "did-not-run"
			h.Output = firstLines(rt.Output, 8)
		}
		out = append(out, h)
	}
	return out
}

func jsonString(v interface{}) string {
	b, _ := json.Marshal(v)
	return string(b)
}

var _ = fmt.Sprint


// astAudit runs the bounded audit of the trusted hclsyntax AST facts (bin/astaudit) and returns its report.
func (r *checkRun) astAudit() map[string]interface{} {
	bin := filepath.Join(r.root, "bin", "astaudit")
	if _, err := os.Stat(bin); err != nil {
		return map[string]interface{}{"error": "bin/astaudit not built"}
	}
	cmd := exec.Command(bin, filepath.Join(r.root, "trusted", "base.spec"))
	b, _ := cmd.Output()
	out := map[string]interface{}{}
	// the report is the JSON object at the end of the output
	if i := strings.LastIndex(string(b), "\n{"); i >= 0 {
		json.Unmarshal(b[i+1:], &out)
	} else {
		json.Unmarshal(b, &out)
	}
	var refuted []string
	for _, l := range strings.Split(string(b), "\n") {
		if strings.HasPrefix(l, "REFUTED ") {
			refuted = append(refuted, l)
		}
	}
	if len(refuted) > 0 {
		out["refutations"] = refuted
	}
	out["what"] = "bounded audit of the trusted AST facts of trusted/base.spec on a corpus of native and JSON configurations, all their prefixes and single-token deletions; refutes, never proves"
	return out
}
