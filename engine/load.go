package main

import (
	"fmt"
	"go/ast"
	"go/token"
	"go/types"
	"os"
	"sort"
	"strings"
	"sync"

	"golang.org/x/tools/go/ast/astutil"
	"golang.org/x/tools/go/packages"
	"golang.org/x/tools/go/ssa"
	"golang.org/x/tools/go/ssa/ssautil"
)

const modPath = "github.com/hashicorp/hcl-lang"

// World is the loaded program: real packages of /repo, type-checked and in SSA form.
type World struct {
	repo    string
	fset    *token.FileSet
	pkgs    []*packages.Package
	prog    *ssa.Program
	mine    map[*types.Package]bool
	funcs   []*ssa.Function          // functions of the hcl-lang packages (incl. closures)
	byName  map[string]*ssa.Function // all functions of the program by String()
	files   map[string]*ast.File     // filename -> syntax
	pkgOfFn map[*ssa.Function]*packages.Package
	srcCache map[string][]byte
	recursive map[*ssa.Function]bool
	mu       sync.Mutex
	pureMemo map[string]bool
	readerMemo map[*ssa.Function]bool
	declaredPure map[string]bool
	pmu      sync.Mutex
	readOnlyExt func(string) bool
	implMemo map[string][]*ssa.Function
}

func loadWorld(repo string) (*World, error) {
	repoRoot = strings.TrimSuffix(repo, "/")
	cfg := &packages.Config{
		Mode:       packages.LoadAllSyntax,
		Dir:        repo,
		BuildFlags: []string{"-tags=verif"},
		Env:        append(os.Environ(), "GOFLAGS=-mod=mod", "GOPROXY=off", "GOSUMDB=off", "GOTOOLCHAIN=local"),
	}
	pkgs, err := packages.Load(cfg, "./...")
	if err != nil {
		return nil, err
	}
	nerr := 0
	packages.Visit(pkgs, nil, func(p *packages.Package) {
		if strings.HasPrefix(p.PkgPath, modPath) {
			for _, e := range p.Errors {
				fmt.Fprintln(os.Stderr, "load error:", e)
				nerr++
			}
		}
	})
	if nerr > 0 {
		return nil, fmt.Errorf("%d errors loading %s", nerr, repo)
	}
	prog, _ := ssautil.AllPackages(pkgs, ssa.GlobalDebug)
	prog.Build()
	w := &World{repo: repo, prog: prog, pkgs: pkgs, mine: map[*types.Package]bool{}, byName: map[string]*ssa.Function{},
		files: map[string]*ast.File{}, pkgOfFn: map[*ssa.Function]*packages.Package{}, srcCache: map[string][]byte{}, recursive: map[*ssa.Function]bool{}, pureMemo: map[string]bool{}, readerMemo: map[*ssa.Function]bool{}, declaredPure: map[string]bool{}, implMemo: map[string][]*ssa.Function{}}
	pkgByTypes := map[*types.Package]*packages.Package{}
	for _, p := range pkgs {
		if strings.Contains(p.PkgPath, "/tools") {
			continue
		}
		w.mine[p.Types] = true
		pkgByTypes[p.Types] = p
		w.fset = p.Fset
		for _, f := range p.Syntax {
			w.files[p.Fset.Position(f.Pos()).Filename] = f
		}
	}
	for f := range ssautil.AllFunctions(prog) {
		w.byName[f.String()] = f
		if f.Pkg == nil || !w.mine[f.Pkg.Pkg] || len(f.Blocks) == 0 {
			continue
		}
		if f.Synthetic != "" {
			continue
		}
		fn := prog.Fset.Position(f.Pos()).Filename
		if strings.HasSuffix(fn, "_string.go") || strings.HasSuffix(fn, "_test.go") {
			continue
		}
		w.funcs = append(w.funcs, f)
		w.pkgOfFn[f] = pkgByTypes[f.Pkg.Pkg]
	}
	sort.Slice(w.funcs, func(i, j int) bool { return w.funcs[i].String() < w.funcs[j].String() })
	w.findRecursion()
	return w, nil
}

// shortName gives "decoder.(*PathDecoder).hoverAtPos" from the SSA name.
func shortName(f *ssa.Function) string {
	s := f.String()
	s = strings.ReplaceAll(s, modPath+"/decoder/internal/", "")
	s = strings.ReplaceAll(s, modPath+"/", "")
	s = strings.ReplaceAll(s, "github.com/hashicorp/hcl/v2/", "")
	s = strings.ReplaceAll(s, "github.com/hashicorp/hcl/v2.", "hcl.")
	s = strings.ReplaceAll(s, "github.com/zclconf/go-cty/", "")
	return s
}

// srcText returns the source text of the smallest expression enclosing pos (normalised), for obligation names.
func (w *World) srcText(pos token.Pos, want func(ast.Node) bool) string {
	if !pos.IsValid() {
		return ""
	}
	w.mu.Lock()
	defer w.mu.Unlock()
	p := w.prog.Fset.Position(pos)
	f := w.files[p.Filename]
	if f == nil {
		return ""
	}
	path, _ := astutil.PathEnclosingInterval(f, pos, pos)
	for _, n := range path {
		if want(n) {
			return w.nodeText(n)
		}
	}
	return ""
}

func (w *World) nodeText(n ast.Node) string {
	s := w.prog.Fset.Position(n.Pos())
	e := w.prog.Fset.Position(n.End())
	src, ok := w.srcCache[s.Filename]
	if !ok {
		src, _ = os.ReadFile(s.Filename)
		w.srcCache[s.Filename] = src
	}
	if s.Offset < 0 || e.Offset > len(src) || s.Offset > e.Offset {
		return ""
	}
	t := string(src[s.Offset:e.Offset])
	t = strings.Join(strings.Fields(t), " ")
	if len(t) > 70 {
		t = t[:70] + "…"
	}
	return t
}

// findRecursion marks functions on call-graph cycles (static callees only; invoke edges are
// approximated by method name within hcl-lang).
func (w *World) findRecursion() {
	succ := map[*ssa.Function][]*ssa.Function{}
	var all []*ssa.Function
	for _, f := range w.byName {
		if len(f.Blocks) == 0 {
			continue
		}
		all = append(all, f)
		for _, b := range f.Blocks {
			for _, in := range b.Instrs {
				switch x := in.(type) {
				case ssa.CallInstruction:
					if c := x.Common().StaticCallee(); c != nil {
						succ[f] = append(succ[f], c)
					}
				case *ssa.MakeClosure:
					if c, ok := x.Fn.(*ssa.Function); ok {
						succ[f] = append(succ[f], c)
					}
				}
			}
		}
	}
	// Tarjan
	index := 0
	idx := map[*ssa.Function]int{}
	low := map[*ssa.Function]int{}
	on := map[*ssa.Function]bool{}
	var stack []*ssa.Function
	var strong func(v *ssa.Function)
	strong = func(v *ssa.Function) {
		index++
		idx[v] = index
		low[v] = index
		stack = append(stack, v)
		on[v] = true
		for _, x := range succ[v] {
			if idx[x] == 0 {
				strong(x)
				if low[x] < low[v] {
					low[v] = low[x]
				}
			} else if on[x] && idx[x] < low[v] {
				low[v] = idx[x]
			}
		}
		if low[v] == idx[v] {
			var comp []*ssa.Function
			for {
				x := stack[len(stack)-1]
				stack = stack[:len(stack)-1]
				on[x] = false
				comp = append(comp, x)
				if x == v {
					break
				}
			}
			if len(comp) > 1 {
				for _, x := range comp {
					w.recursive[x] = true
				}
			} else {
				for _, x := range succ[v] {
					if x == v {
						w.recursive[v] = true
					}
				}
			}
		}
	}
	sort.Slice(all, func(i, j int) bool { return all[i].String() < all[j].String() })
	for _, f := range all {
		if idx[f] == 0 {
			strong(f)
		}
	}
}
