package main

import (
	"fmt"
	"go/ast"
	"go/constant"
	"go/token"
	"go/types"
	"sort"
	"strings"

	"golang.org/x/tools/go/ssa"
)

// Oblig is one proof obligation: under the function's assumptions, reach => cond.
type Oblig struct {
	Fn      string
	shortMs int // own (shorter) solver limit: not discharged on the pinned tree, not claimed
	Family  string // SAFE FRAME POST INV PRE LOOP COPY NONDET TERM
	Kind    string
	Text    string
	Name    string
	cond    string
	reach   string
	trivial bool
	pos     token.Pos
	Verdict string
	Solver  string
	Ms      int
	Model   string
	houdini int // >0: candidate invariant id this obligation belongs to
	uses    []int
	Output  string
	tags    []string
	clause  string
	at      int // number of assertion lines that precede this obligation
	crossAsked, crossAgree int
	crossDisagree []string
}

type pathElem struct {
	t   types.Type
	s   *types.Struct
	idx int
}

// Addr is a symbolic address: a heap cell plus a path into the struct value stored there.
type Addr struct {
	heap string
	loc  Loc
	path []pathElem
	typ  types.Type // type of the addressed value
	// whole: pointer to a struct kept field-wise (per-field heaps); loc[0] is the ref
	whole bool
}

type mkIfaceRec struct {
	term string
	typ  types.Type
	val  string
}

type ifaceFieldUF struct {
	iface types.Type
	field string
	uf    string
}

type retInfo struct {
	reach string
	vals  []string
	st    *State
	instr *ssa.Return
}

type Frame struct {
	fn    *ssa.Function
	ghostDone map[int]bool
	pfx   string
	vals  map[ssa.Value]string
	tup   map[ssa.Value][]string
	addrs map[ssa.Value]*Addr
	reach map[*ssa.BasicBlock]string
	out   map[*ssa.BasicBlock]*State
	edgeC map[[2]int]string
	inl   bool
	depth int
	a0    string
	rets  []retInfo
	entry *State
	loops map[*ssa.BasicBlock]*loopInfo
	callReach string
	contract *Contract
	params []string
	closureOf map[ssa.Value]*closureInfo
	curState *State
	idxBases *[]string // comparator harness: slices indexed by the comparator's index parameters
	escaped []*closureInfo
	dep     bool
	silent  bool
	modRefs []string
}

type closureInfo struct {
	fn       *ssa.Function
	bindings []ssa.Value
}

type loopInfo struct {
	head  *ssa.BasicBlock
	body  map[*ssa.BasicBlock]bool
	ord   int
	state *State
	isMapRange bool
	iter  string
	cands []*invCand
	vis, visKey, visKeySort, visOk string
	point string // where an invariant is being evaluated: entry, head, back
	vacDone bool
}

type Enc struct {
	w          *World
	top        *ssa.Function
	d          *Decls
	lines      []string
	obs        []*Oblig
	heaps      map[string]heapSig
	heapRef    map[string]bool
	oldTerms   map[string]bool
	allocTerms map[string]bool
	selMemo    map[interface{}]string
	undo       []func()
	a0         string
	n          int
	cur        string // current reach guard
	strConsts  map[string]string
	globals    map[string]bool
	nameCount  map[string]int
	quant      int // >0 while translating under a binder: no side assumptions
	unsupported []string
	spec       *Specs
	flags      []string // houdini flags
	flagInfo   map[int]string
	frameOn    bool
	noInline   bool
	inlineStack []*ssa.Function
	topFrame   *Frame
	ghost      map[string]string
	ghostType  map[string]types.Type
	ghostPre   map[string]string
	ifaceTypes []types.Type
	usedTrusted map[string]bool
	bindErrs   []string
	houdiniUndecided []string // automatic invariant candidates the solvers could not decide in time
	requires   []string
	dummy      *State
	flagsOff   map[string]bool
	solverErrs []string
	axioms     []string
	inFinish   bool
	escaped    []*closureInfo
	pureCalls  bool
	noSpecInline bool
	verCtr     int
	writesOld  bool
	tokIDs     map[string]int
	readMemo   map[*ssa.Function][]string
	privateRefs map[string]bool
	invDone    map[string]bool
	mkIfaces   []mkIfaceRec
	ifaceFieldUFs map[string]ifaceFieldUF
}

func newEnc(w *World, f *ssa.Function, spec *Specs) *Enc {
	e := &Enc{w: w, top: f, d: newDecls(), heaps: map[string]heapSig{}, heapRef: map[string]bool{}, oldTerms: map[string]bool{},
		allocTerms: map[string]bool{}, selMemo: map[interface{}]string{}, strConsts: map[string]string{}, globals: map[string]bool{},
		nameCount: map[string]int{}, spec: spec, flagInfo: map[int]string{}, frameOn: true, ghost: map[string]string{}, ghostType: map[string]types.Type{}, usedTrusted: map[string]bool{}, privateRefs: map[string]bool{}, invDone: map[string]bool{}, tokIDs: map[string]int{}, readMemo: map[*ssa.Function][]string{}}
	e.a0 = "A0"
	e.d.decl("A0", "() Int")
	e.assume("(>= A0 1)")
	e.cur = "true"
	return e
}

func (e *Enc) fresh(p string) string {
	e.n++
	return fmt.Sprintf("%s_%d", p, e.n)
}

func (e *Enc) freshConst(p, sort string) string {
	n := e.fresh(p)
	e.d.decl(n, "() "+sort)
	return n
}

func (e *Enc) assume(f string) {
	if e.quant > 0 {
		return
	}
	if e.inFinish {
		e.axioms = append(e.axioms, "(assert "+f+")")
		return
	}
	e.lines = append(e.lines, "(assert "+f+")")
}

// assumeG: assumption that holds only when the current program point is reached.
func (e *Enc) assumeG(f string) {
	if e.quant > 0 {
		return
	}
	if e.cur == "true" {
		e.assume(f)
	} else {
		e.assume("(=> " + e.cur + " " + f + ")")
	}
}

func (e *Enc) define(name, term string) { e.lines = append(e.lines, "(assert (= "+name+" "+term+"))") }

func (e *Enc) unsup(s string) {
	e.unsupported = append(e.unsupported, s)
}

func (e *Enc) heap(name string, args []string, res string, isRef bool) string {
	if _, ok := e.heaps[name]; !ok {
		e.heaps[name] = heapSig{args, res}
		e.heapRef[name] = isRef
	}
	return name
}

// ---- heap names from types -------------------------------------------------

func (e *Enc) fieldHeap(st types.Type, s *types.Struct, i int) string {
	ft := s.Field(i).Type()
	return e.heap("F_"+strings.TrimPrefix(structName(st), "S_")+"_"+fieldName(s, i), []string{"Int"}, e.d.sortOf(ft), isRefSort(ft))
}
func (e *Enc) cellHeap(t types.Type) string {
	return e.heap("P_"+typeKey(t), []string{"Int"}, e.d.sortOf(t), isRefSort(t))
}
func (e *Enc) elemHeap(t types.Type) string {
	return e.heap("E_"+typeKey(t), []string{"Int", "Int"}, e.d.sortOf(t), isRefSort(t))
}
func (e *Enc) mapHeaps(m *types.Map) (dom, val, ln string) {
	k := typeKey(m.Key()) + "__" + typeKey(m.Elem())
	dom = e.heap("MD_"+k, []string{"Int", e.d.sortOf(m.Key())}, "Bool", false)
	val = e.heap("MV_"+k, []string{"Int", e.d.sortOf(m.Key())}, e.d.sortOf(m.Elem()), isRefSort(m.Elem()))
	ln = e.heap("ML_"+k, []string{"Int"}, "Int", false)
	return
}

func derefStruct(t types.Type) (types.Type, *types.Struct, bool) {
	p, ok := t.Underlying().(*types.Pointer)
	if !ok {
		return nil, nil, false
	}
	s, ok := p.Elem().Underlying().(*types.Struct)
	return p.Elem(), s, ok
}

// ---- values ------------------------------------------------------------------

func (e *Enc) strConst(s string) string {
	if s == "" {
		return "str_empty"
	}
	if n, ok := e.strConsts[s]; ok {
		return n
	}
	n := fmt.Sprintf("c_str_%d_%x", len(s), hash(s))
	e.d.decl(n, "() Str")
	e.assume(fmt.Sprintf("(= (strlen %s) %d)", n, len(s)))
	e.strConsts[s] = n
	e.undo = append(e.undo, func() { delete(e.strConsts, s) })
	return n
}

func intLit(i int64) string {
	if i < 0 {
		return fmt.Sprintf("(- %d)", -i)
	}
	return fmt.Sprintf("%d", i)
}

func (e *Enc) constVal(c *ssa.Const) string {
	t := c.Type()
	if c.Value == nil {
		return e.d.zero(t)
	}
	switch e.d.sortOf(t) {
	case "Bool":
		if constant.BoolVal(c.Value) {
			return "true"
		}
		return "false"
	case "Int":
		v := constant.ToInt(c.Value)
		if i, ok := constant.Int64Val(v); ok {
			return intLit(i)
		}
		if u, ok := constant.Uint64Val(v); ok {
			return fmt.Sprintf("%d", u)
		}
		return e.freshConst("bigc", "Int")
	case "Str":
		return e.strConst(constant.StringVal(c.Value))
	case "Flt":
		n := "c_flt_" + san(c.Value.ExactString())
		e.d.decl(n, "() Flt")
		return n
	}
	return e.freshConst("c_other", e.d.sortOf(t))
}

func (e *Enc) globalRef(g *ssa.Global) string {
	n := "g_" + san(g.Pkg.Pkg.Name()+"."+g.Name())
	if !e.globals[n] {
		e.globals[n] = true
		e.undo = append(e.undo, func() { delete(e.globals, n) })
		e.d.decl(n, "() Int")
		e.assume(fmt.Sprintf("(and (> %s 0) (< %s A0))", n, n))
		e.oldTerms[n] = true
	}
	return n
}

func (e *Enc) funcRef(f *ssa.Function) string {
	n := "fn_" + san(shortName(f))
	if !e.globals[n] {
		e.globals[n] = true
		e.undo = append(e.undo, func() { delete(e.globals, n) })
		e.d.decl(n, "() Int")
		e.assume(fmt.Sprintf("(and (> %s 0) (< %s A0))", n, n))
		e.oldTerms[n] = true
	}
	return n
}

func (e *Enc) val(fr *Frame, v ssa.Value) string {
	if t, ok := fr.vals[v]; ok {
		return t
	}
	var t string
	switch x := v.(type) {
	case *ssa.Const:
		return e.constVal(x)
	case *ssa.Global:
		t = e.globalRef(x)
	case *ssa.Function:
		t = e.funcRef(x)
	case *ssa.Builtin:
		t = "0"
	case *ssa.FieldAddr, *ssa.IndexAddr:
		// an interior pointer used as a value: opaque ref (see escapes)
		a := fr.addrs[v]
		t = e.freshConst(fr.pfx+"iptr", "Int")
		e.assume("(> " + t + " 0)")
		if a != nil {
			e.unsup("interior pointer escapes: " + v.String())
		}
	default:
		// should have been defined by its instruction; declare free
		t = e.freshConst(fr.pfx+san(v.Name()), e.d.sortOf(v.Type()))
	}
	fr.vals[v] = t
	return t
}

// setVal names the value of an instruction.
func (e *Enc) setVal(fr *Frame, v ssa.Value, term string) string {
	srt := e.d.sortOf(v.Type())
	n := fr.pfx + san(v.Name())
	if e.d.seen[n] {
		n = e.fresh(n)
	}
	e.d.decl(n, "() "+srt)
	e.define(n, term)
	fr.vals[v] = n
	return n
}

func (e *Enc) freeVal(fr *Frame, v ssa.Value) string {
	srt := e.d.sortOf(v.Type())
	n := fr.pfx + san(v.Name())
	if e.d.seen[n] {
		n = e.fresh(n)
	}
	e.d.decl(n, "() "+srt)
	fr.vals[v] = n
	e.typeFacts(v.Type(), n, true)
	return n
}

// typeFacts: facts every Go value of the type satisfies (unsigned >= 0, slice header well formed).
func (e *Enc) typeFacts(t types.Type, term string, guarded bool) {
	add := e.assume
	switch u := t.Underlying().(type) {
	case *types.Basic:
		if isUnsigned(t) {
			add("(>= " + term + " 0)")
		}
		if u.Info()&types.IsString != 0 {
			add("(>= (strlen " + term + ") 0)")
		}
	case *types.Slice:
		add(sliceWF(term))
	case *types.Pointer, *types.Map, *types.Signature, *types.Chan:
		add("(>= " + term + " 0)")
	case *types.Interface:
		add(fmt.Sprintf("(and (>= (itag %s) 0) (=> (= (itag %s) 0) (= (ival %s) 0)))", term, term, term))
	}
}

// older: refs inside a value are older than bound (used for parameters and call results).
func (e *Enc) older(t types.Type, term, bound string, depth int) {
	switch u := t.Underlying().(type) {
	case *types.Pointer, *types.Map, *types.Signature, *types.Chan:
		e.assume("(< " + term + " " + bound + ")")
	case *types.Slice:
		e.assume("(< (sarr " + term + ") " + bound + ")")
	case *types.Interface:
		e.d.decl("ptrtag", "(Int) Bool")
		e.assume(fmt.Sprintf("(=> (ptrtag (itag %s)) (< (ival %s) %s))", term, term, bound))
	case *types.Struct:
		if depth > 2 {
			return
		}
		for i := 0; i < u.NumFields(); i++ {
			e.older(u.Field(i).Type(), sel(t, u, i, term), bound, depth+1)
		}
	}
}

// ---- addresses ------------------------------------------------------------------

func (e *Enc) addrOf(fr *Frame, v ssa.Value) *Addr {
	if a, ok := fr.addrs[v]; ok {
		return a
	}
	// a plain pointer value
	pt, ok := v.Type().Underlying().(*types.Pointer)
	if !ok {
		return nil
	}
	ref := e.val(fr, v)
	a := e.addrOfRef(ref, pt.Elem())
	return a
}

func (e *Enc) addrOfRef(ref string, elem types.Type) *Addr {
	switch elem.Underlying().(type) {
	case *types.Struct:
		return &Addr{whole: true, loc: Loc{ref}, typ: elem}
	case *types.Array:
		return &Addr{whole: true, loc: Loc{ref}, typ: elem}
	}
	return &Addr{heap: e.cellHeap(elem), loc: Loc{ref}, typ: elem}
}

func (e *Enc) applyPath(x string, path []pathElem) string {
	for _, p := range path {
		x = sel(p.t, p.s, p.idx, x)
	}
	return x
}

func (e *Enc) updatePath(x string, path []pathElem, v string) string {
	if len(path) == 0 {
		return v
	}
	p := path[0]
	sub := sel(p.t, p.s, p.idx, x)
	if len(path) > 1 {
		n := e.freshConst("sub", e.d.sortOf(p.s.Field(p.idx).Type()))
		e.define(n, sub)
		sub = n
	}
	inner := e.updatePath(sub, path[1:], v)
	return updField(p.t, p.s, x, p.idx, inner)
}

func (e *Enc) load(fr *Frame, st *State, a *Addr) string {
	if a.whole {
		switch u := a.typ.Underlying().(type) {
		case *types.Struct:
			e.d.structSort(a.typ, u)
			fs := make([]string, u.NumFields())
			for i := range fs {
				h := e.fieldHeap(a.typ, u, i)
				fs[i] = e.sel(e.view(st, h), h, a.loc)
			}
			return mkStruct(a.typ, u, fs)
		default:
			e.unsup("whole load of " + a.typ.String())
			return e.freshConst("arrv", e.d.sortOf(a.typ))
		}
	}
	x := e.sel(e.view(st, a.heap), a.heap, a.loc)
	return e.applyPath(x, a.path)
}

func (e *Enc) store(fr *Frame, st *State, a *Addr, v string) *State {
	if a.whole {
		switch u := a.typ.Underlying().(type) {
		case *types.Struct:
			for i := 0; i < u.NumFields(); i++ {
				h := e.fieldHeap(a.typ, u, i)
				ns := e.newState(sStore, st)
				ns.heap, ns.loc, ns.val = h, a.loc, sel(a.typ, u, i, v)
				if e.privateRefs[a.loc[0]] {
					ns.ver = st.ver // no callee can see an object whose address never escapes
				}
				st = ns
			}
			return st
		default:
			e.unsup("whole store of " + a.typ.String())
			return st
		}
	}
	nv := v
	if len(a.path) > 0 {
		old := e.freshConst("cell", e.heaps[a.heap].res)
		e.define(old, e.sel(e.view(st, a.heap), a.heap, a.loc))
		nv = e.freshConst("cell", e.heaps[a.heap].res)
		e.define(nv, e.updatePath(old, a.path, v))
	}
	ns := e.newState(sStore, st)
	ns.heap, ns.loc, ns.val = a.heap, a.loc, nv
	if e.privateRefs[a.loc[0]] {
		ns.ver = st.ver
	}
	return ns
}

// ---- obligations ---------------------------------------------------------------------

func (e *Enc) addOb(fr *Frame, family, kind string, pos token.Pos, text, cond string, trivial bool) *Oblig {
	fn := shortName(e.top)
	if fr != nil && fr.silent {
		return &Oblig{}
	}
	if fr != nil && fr.inl {
		kind = "inl:" + kind
		text = shortName(fr.fn) + ":" + text
	}
	base := fmt.Sprintf("%s#%s:%s:%s", fn, family, kind, text)
	e.nameCount[base]++
	name := fmt.Sprintf("%s#%d", base, e.nameCount[base])
	o := &Oblig{Fn: fn, Family: family, Kind: kind, Text: text, Name: name, cond: cond, reach: e.cur, trivial: trivial, pos: pos, at: len(e.lines)}
	e.obs = append(e.obs, o)
	return o
}

func (e *Enc) exprText(pos token.Pos, kinds ...string) string {
	return e.w.srcText(pos, func(n ast.Node) bool {
		switch n.(type) {
		case *ast.IndexExpr:
			return has(kinds, "index")
		case *ast.SliceExpr:
			return has(kinds, "slice")
		case *ast.SelectorExpr:
			return has(kinds, "sel")
		case *ast.CallExpr:
			return has(kinds, "call")
		case *ast.StarExpr, *ast.UnaryExpr:
			return has(kinds, "star")
		case *ast.TypeAssertExpr:
			return has(kinds, "assert")
		case *ast.BinaryExpr:
			return has(kinds, "bin")
		case *ast.AssignStmt, *ast.IncDecStmt:
			return has(kinds, "assign")
		case *ast.CompositeLit:
			return has(kinds, "lit")
		case *ast.RangeStmt:
			return has(kinds, "range")
		case *ast.ReturnStmt:
			return has(kinds, "return")
		}
		return false
	})
}

func has(a []string, s string) bool {
	for _, x := range a {
		if x == s {
			return true
		}
	}
	return false
}

// frameOb: a write to the object rooted at ref must hit memory allocated by this call
// (or memory the contract lists under modifies).
func (e *Enc) frameOb(fr *Frame, pos token.Pos, text string, ref string, extra string) {
	if fr.inl || !e.frameOn {
		return
	}
	cond := "(>= " + ref + " " + e.a0 + ")"
	if extra != "" {
		cond = "(or " + cond + " " + extra + ")"
	}
	if m := e.modifiesAllows(fr, ref); m != "" {
		cond = "(or " + cond + " " + m + ")"
	}
	triv := e.allocTerms[ref]
	for _, fv := range fr.fn.FreeVars {
		if fr.vals[fv] == ref {
			triv = true // a closure may assign its captured variables; the creator accounts for it
		}
	}
	e.addOb(fr, "FRAME", "store", pos, text, cond, triv)
}

// ---- function encoding ---------------------------------------------------------------------

func rpo(f *ssa.Function) []*ssa.BasicBlock {
	seen := map[*ssa.BasicBlock]bool{}
	var post []*ssa.BasicBlock
	var dfs func(b *ssa.BasicBlock)
	dfs = func(b *ssa.BasicBlock) {
		seen[b] = true
		for _, s := range b.Succs {
			if !seen[s] && !s.Dominates(b) {
				dfs(s)
			}
		}
		post = append(post, b)
	}
	dfs(f.Blocks[0])
	for i, j := 0, len(post)-1; i < j; i, j = i+1, j-1 {
		post[i], post[j] = post[j], post[i]
	}
	return post
}

func isBackEdge(p, s *ssa.BasicBlock) bool { return s.Dominates(p) }

func findLoops(f *ssa.Function) map[*ssa.BasicBlock]*loopInfo {
	loops := map[*ssa.BasicBlock]*loopInfo{}
	for _, b := range f.Blocks {
		for _, s := range b.Succs {
			if isBackEdge(b, s) {
				li := loops[s]
				if li == nil {
					li = &loopInfo{head: s, body: map[*ssa.BasicBlock]bool{s: true}}
					loops[s] = li
				}
				// nodes reaching b without passing s
				var stack []*ssa.BasicBlock
				if !li.body[b] {
					li.body[b] = true
					stack = append(stack, b)
				}
				for len(stack) > 0 {
					x := stack[len(stack)-1]
					stack = stack[:len(stack)-1]
					for _, p := range x.Preds {
						if !li.body[p] {
							li.body[p] = true
							stack = append(stack, p)
						}
					}
				}
			}
		}
	}
	// ordinal in source order
	var heads []*ssa.BasicBlock
	for h := range loops {
		heads = append(heads, h)
	}
	// (phis carry the position of their variable's declaration, which has nothing to do with where the loop
	// is: ordering by them would renumber loops when an edit changes which variables are loop-carried)
	sort.Slice(heads, func(i, j int) bool {
		return loopOrderPos(heads[i]) < loopOrderPos(heads[j]) || (loopOrderPos(heads[i]) == loopOrderPos(heads[j]) && heads[i].Index < heads[j].Index)
	})
	for i, h := range heads {
		loops[h].ord = i + 1
		for _, in := range h.Instrs {
			if _, ok := in.(*ssa.Next); ok {
				loops[h].isMapRange = true
			}
		}
	}
	return loops
}

// loopOrderPos: the position that orders the loops of a function: the first positioned instruction of the
// loop head (or of its successors) that is not a phi.
func loopOrderPos(b *ssa.BasicBlock) token.Pos {
	for _, blk := range append([]*ssa.BasicBlock{b}, b.Succs...) {
		for _, in := range blk.Instrs {
			if _, isPhi := in.(*ssa.Phi); !isPhi && in.Pos().IsValid() {
				return in.Pos()
			}
		}
	}
	return loopPos(b)
}

func loopPos(b *ssa.BasicBlock) token.Pos {
	// the first positioned instruction of the loop head or its body
	for _, in := range b.Instrs {
		if in.Pos().IsValid() {
			return in.Pos()
		}
	}
	for _, s := range b.Succs {
		for _, in := range s.Instrs {
			if in.Pos().IsValid() {
				return in.Pos()
			}
		}
	}
	return token.Pos(1 << 30)
}

func (e *Enc) newFrame(f *ssa.Function, pfx string, inl bool, depth int) *Frame {
	return &Frame{fn: f, pfx: pfx, vals: map[ssa.Value]string{}, tup: map[ssa.Value][]string{}, addrs: map[ssa.Value]*Addr{},
		reach: map[*ssa.BasicBlock]string{}, out: map[*ssa.BasicBlock]*State{}, edgeC: map[[2]int]string{}, inl: inl, depth: depth,
		loops: findLoops(f), closureOf: map[ssa.Value]*closureInfo{}}
}

func (e *Enc) edgeCond(fr *Frame, p, s *ssa.BasicBlock) string {
	r := fr.reach[p]
	if ifi, ok := p.Instrs[len(p.Instrs)-1].(*ssa.If); ok {
		if p.Succs[0] == s && p.Succs[1] == s {
			return r
		}
		c := e.val(fr, ifi.Cond)
		if p.Succs[0] == s {
			return "(and " + r + " " + c + ")"
		}
		return "(and " + r + " (not " + c + "))"
	}
	return r
}

// encodeBody encodes all blocks of fr.fn starting from state st0; parameters must be bound already.
func (e *Enc) encodeBody(fr *Frame, st0 *State, callReach string) {
	f := fr.fn
	fr.entry = st0
	fr.callReach = callReach
	order := rpo(f)
	for _, b := range order {
		var st *State
		var reach string
		if b.Index == 0 {
			st = st0
			reach = callReach
			fr.reach[b] = reach
		} else {
			var conds []string
			var preds []*State
			for _, p := range b.Preds {
				if isBackEdge(p, b) {
					continue
				}
				if _, done := fr.out[p]; !done {
					continue // unreachable pred
				}
				conds = append(conds, e.edgeCond(fr, p, b))
				preds = append(preds, fr.out[p])
			}
			rn := e.freshConst(fr.pfx+fmt.Sprintf("reach%d", b.Index), "Bool")
			li := fr.loops[b]
			if len(conds) == 0 {
				e.assume("(not " + rn + ")")
				fr.reach[b] = rn
				fr.out[b] = st0
				continue
			}
			or := conds[0]
			if len(conds) > 1 {
				or = "(or " + strings.Join(conds, " ") + ")"
			}
			if li != nil {
				e.assume("(=> " + rn + " " + or + ")")
			} else {
				e.define(rn, or)
			}
			fr.reach[b] = rn
			reach = rn
			// join state
			if len(preds) == 1 {
				st = preds[0]
			} else {
				allSame := true
				for _, p := range preds[1:] {
					if p != preds[0] {
						allSame = false
					}
				}
				if allSame {
					st = preds[0]
				} else {
					st = e.newState(sJoin, nil)
					st.conds, st.preds = conds, preds
					sameVer := true
					for _, p := range preds[1:] {
						if p.ver != preds[0].ver {
							sameVer = false
						}
					}
					if sameVer {
						st.ver = preds[0].ver
					}
					nx := e.freshConst(fr.pfx+"nxt", "Int")
					for i, p := range preds {
						e.assume("(=> " + conds[i] + " (= " + nx + " " + p.nxt + "))")
					}
					st.nxt = nx
				}
			}
			if li != nil {
				st = e.loopHead(fr, li, st, conds, preds)
			}
		}
		e.cur = reach
		// phis
		for _, in := range b.Instrs {
			ph, ok := in.(*ssa.Phi)
			if !ok {
				break
			}
			n := e.freeVal(fr, ph)
			if fr.loops[b] != nil {
				continue
			}
			for i, p := range b.Preds {
				if _, done := fr.out[p]; !done {
					continue
				}
				e.assume("(=> " + e.edgeCond(fr, p, b) + " (= " + n + " " + e.val(fr, ph.Edges[i]) + "))")
				if a, ok := fr.addrs[ph.Edges[i]]; ok && a != nil {
					e.unsup("phi of interior pointers")
				}
			}
		}
		if li := fr.loops[b]; li != nil {
			e.loopAssume(fr, li, st)
		}
		for _, in := range b.Instrs {
			if _, ok := in.(*ssa.Phi); ok {
				continue
			}
			st = e.instr(fr, st, in)
			if _, isCall := in.(*ssa.Call); isCall {
				e.siteGhosts(fr, b, st, in)
			}
		}
		e.siteGhosts(fr, b, st, nil)
		fr.out[b] = st
		fr.reach[b] = e.cur // an inlined call that does not return ends the block early
		// back edges: loop invariants must be re-established
		for _, s := range b.Succs {
			if isBackEdge(b, s) {
				if li := fr.loops[s]; li != nil {
					e.loopBack(fr, li, b, st)
				}
			}
		}
	}
}

// written collects the heaps a block set may write directly (stores, map updates, append/copy/delete)
// and whether it allocates or calls (touchesAll) or calls unknown code (full).
func (e *Enc) written(blocks map[*ssa.BasicBlock]bool, f *ssa.Function, depth int, stored, full map[string]bool, touches *bool) {
	for _, b := range f.Blocks {
		if blocks != nil && !blocks[b] {
			continue
		}
		for _, in := range b.Instrs {
			switch x := in.(type) {
			case *ssa.Store:
				for _, h := range e.heapsOfPtr(x.Addr) {
					stored[h] = true
				}
			case *ssa.MapUpdate:
				if m, ok := x.Map.Type().Underlying().(*types.Map); ok {
					d, v, l := e.mapHeaps(m)
					stored[d], stored[v], stored[l] = true, true, true
				}
			case *ssa.Alloc, *ssa.MakeSlice, *ssa.MakeMap, *ssa.MakeClosure, *ssa.MakeInterface, *ssa.Convert:
				*touches = true
			case ssa.CallInstruction:
				*touches = true
				c := x.Common()
				if bi, ok := c.Value.(*ssa.Builtin); ok {
					switch bi.Name() {
					case "append", "copy":
						if s, ok := c.Args[0].Type().Underlying().(*types.Slice); ok {
							stored[e.elemHeap(s.Elem())] = true
						}
					case "delete":
						if m, ok := c.Args[0].Type().Underlying().(*types.Map); ok {
							d, v, l := e.mapHeaps(m)
							stored[d], stored[v], stored[l] = true, true, true
						}
					}
					continue
				}
				callee := c.StaticCallee()
				if callee == nil {
					if c.IsInvoke() {
						continue // interface methods: default frame / contract
					}
					full["*"] = true
					continue
				}
				if ct := e.spec.contractFor(callee); ct != nil {
					for _, h := range e.modifiedHeaps(callee, ct) {
						stored[h] = true
						full[h] = true
					}
					continue
				}
				if e.spec.isMutator(callee) {
					for _, a := range c.Args {
						if s, ok := a.Type().Underlying().(*types.Slice); ok {
							h := e.elemHeap(s.Elem())
							stored[h] = true
						}
						if _, ok := a.Type().Underlying().(*types.Interface); ok {
							full["*"] = true
						}
					}
				}
				// closures passed to a call may write their captured cells
				for _, a := range c.Args {
					if mc, ok := a.(*ssa.MakeClosure); ok {
						cf := mc.Fn.(*ssa.Function)
						e.written(nil, cf, depth+1, stored, full, touches)
						for h := range stored {
							_ = h
						}
					}
				}
				if e.willInline(callee, depth) {
					e.written(nil, callee, depth+1, stored, full, touches)
				}
			}
		}
	}
}

// heapsOfPtr: the heap(s) a store through this pointer value writes.
func (e *Enc) heapsOfPtr(v ssa.Value) []string {
	switch x := v.(type) {
	case *ssa.FieldAddr:
		// innermost cell: walk up while the base is itself an interior address of a value-embedded struct
		t, s, ok := derefStruct(x.X.Type())
		if !ok {
			return nil
		}
		switch b := x.X.(type) {
		case *ssa.FieldAddr, *ssa.IndexAddr:
			return e.heapsOfPtr(b)
		}
		return []string{e.fieldHeap(t, s, x.Field)}
	case *ssa.IndexAddr:
		switch u := x.X.Type().Underlying().(type) {
		case *types.Slice:
			return []string{e.elemHeap(u.Elem())}
		case *types.Pointer:
			if a, ok := u.Elem().Underlying().(*types.Array); ok {
				switch b := x.X.(type) {
				case *ssa.FieldAddr, *ssa.IndexAddr:
					return e.heapsOfPtr(b)
				}
				return []string{e.elemHeap(a.Elem())}
			}
		}
		return nil
	}
	pt, ok := v.Type().Underlying().(*types.Pointer)
	if !ok {
		return nil
	}
	switch u := pt.Elem().Underlying().(type) {
	case *types.Struct:
		var hs []string
		for i := 0; i < u.NumFields(); i++ {
			hs = append(hs, e.fieldHeap(pt.Elem(), u, i))
		}
		return hs
	case *types.Array:
		return []string{e.elemHeap(u.Elem())}
	}
	return []string{e.cellHeap(pt.Elem())}
}

func (e *Enc) loopHead(fr *Frame, li *loopInfo, entry *State, conds []string, preds []*State) *State {
	if li.isMapRange && li.vis == "" {
		for _, in := range li.head.Instrs {
			if nx, ok := in.(*ssa.Next); ok && !nx.IsString {
				if rg, ok := nx.Iter.(*ssa.Range); ok {
					if m, ok := rg.X.Type().Underlying().(*types.Map); ok {
						e.n++
						li.vis = fmt.Sprintf("%svis_%d", fr.pfx, e.n)
						li.visKeySort = e.d.sortOf(m.Key())
						e.d.decl(li.vis, "("+li.visKeySort+") Bool")
					}
				}
			}
		}
	}
	// invariants on entry edges
	e.loopEntryObs(fr, li, conds, preds)
	s := e.newState(sLoop, entry)
	e.n++
	s.id = e.n
	s.stored, s.full = map[string]bool{}, map[string]bool{}
	e.written(li.body, fr.fn, fr.depth, s.stored, s.full, &s.touchesAll)
	if fr.contract != nil && len(fr.contract.Modifies) > 0 {
		// the function writes caller-visible memory: heaps written in the loop are not frame-protected
		for h := range s.stored {
			s.full[h] = true
		}
	}
	if !e.frameOn || fr.inl && false {
		for h := range s.stored {
			s.full[h] = true
		}
	}
	s.a0 = fr.a0
	if s.touchesAll || len(s.stored) > 0 {
		nx := e.freshConst(fr.pfx+"nxtL", "Int")
		e.assume("(>= " + nx + " " + entry.nxt + ")")
		s.nxt = nx
	}
	if len(s.stored) == 0 && len(s.full) == 0 {
		s.ver = entry.ver // the loop writes no pre-existing object
	}
	// private allocations of this frame (address never escapes) that no store inside the loop is rooted at
	// keep their contents across the loop
	written := map[ssa.Value]bool{}
	for b := range li.body {
		for _, in := range b.Instrs {
			if st, ok := in.(*ssa.Store); ok {
				if r := rootAllocOf(st.Addr); r != nil {
					written[r] = true
				}
			}
		}
	}
	s.keep = map[string]bool{}
	for v, t := range fr.vals {
		if al, ok := v.(*ssa.Alloc); ok && e.privateRefs[t] && !written[al] && !li.body[al.Block()] {
			s.keep[t] = true
		}
	}
	li.state = s
	return s
}

func (e *Enc) instr(fr *Frame, st *State, in ssa.Instruction) *State {
	fr.curState = st
	switch x := in.(type) {
	case *ssa.DebugRef:
		return st
	case *ssa.Alloc:
		r := e.alloc(fr, &st, x, "al")
		fr.vals[x] = r
		if !addrEscapes(x) {
			e.privateRefs[r] = true
		}
		el := x.Type().Underlying().(*types.Pointer).Elem()
		a := e.addrOfRef(r, el)
		// zero-initialise
		if arr, ok := el.Underlying().(*types.Array); ok {
			_ = arr // element cells are arbitrary until stored; zero not modelled (sound: havoc)
		} else {
			st = e.store(fr, st, a, e.d.zero(el))
		}
		return st
	case *ssa.MakeSlice:
		ln, cp := e.val(fr, x.Len), e.val(fr, x.Cap)
		e.addOb(fr, "SAFE", "makeslice", x.Pos(), e.exprText(x.Pos(), "call"), "(and (>= "+ln+" 0) (<= "+ln+" "+cp+"))", isConst(x.Len) && isConst(x.Cap))
		r := e.alloc(fr, &st, x, "ms")
		e.setVal(fr, x, fmt.Sprintf("(mk_Slice %s 0 %s %s)", r, ln, cp))
		// elements are zero
		el := x.Type().Underlying().(*types.Slice).Elem()
		h := e.elemHeap(el)
		e.fill(&st, h, r, e.d.zero(el))
		return st
	case *ssa.MakeMap:
		r := e.alloc(fr, &st, x, "mm")
		fr.vals[x] = r
		m := x.Type().Underlying().(*types.Map)
		d, _, l := e.mapHeaps(m)
		// empty domain: a fresh base that is false everywhere at r
		ns := e.newState(sStore, st)
		ns.heap, ns.loc, ns.val = l, Loc{r}, "0"
		st = ns
		e.fill(&st, d, r, "false")
		return st
	case *ssa.MakeClosure:
		r := e.alloc(fr, &st, x, "cl")
		fr.vals[x] = r
		fr.closureOf[x] = &closureInfo{fn: x.Fn.(*ssa.Function), bindings: x.Bindings}
		e.closureUse(fr, x, fr.closureOf[x])
		return st
	case *ssa.MakeInterface:
		t := x.X.Type()
		tag := e.d.tag(t)
		v := e.val(fr, x.X)
		var n string
		if isPointerShaped(t) {
			n = e.setVal(fr, x, fmt.Sprintf("(mk_Iface %d %s)", tag, v))
		} else {
			bx := e.box(t, v)
			n = e.setVal(fr, x, fmt.Sprintf("(mk_Iface %d %s)", tag, bx))
		}
		e.mkIfaces = append(e.mkIfaces, mkIfaceRec{n, t, v})
		if isPointerShaped(t) {
			// a node built by hcl-lang itself (newEmptyExpressionAtPos): its Range() is the body's
			e.astRangeAxiom(fr, x.Type(), t, n, v, "true")
		}
		return st
	case *ssa.FieldAddr:
		t, s, ok := derefStruct(x.X.Type())
		if !ok {
			e.unsup("FieldAddr on non-struct pointer")
			return st
		}
		e.d.structSort(t, s)
		base := fr.addrs[x.X]
		if base == nil {
			ref := e.val(fr, x.X)
			e.addOb(fr, "SAFE", "nil", x.Pos(), e.exprText(x.Pos(), "sel")+"."+fieldName(s, x.Field), "(not (= "+ref+" 0))", e.allocTerms[ref])
			e.assumeG("(not (= " + ref + " 0))")
			fr.addrs[x] = &Addr{heap: e.fieldHeap(t, s, x.Field), loc: Loc{ref}, typ: s.Field(x.Field).Type()}
		} else if base.whole {
			fr.addrs[x] = &Addr{heap: e.fieldHeap(t, s, x.Field), loc: base.loc, typ: s.Field(x.Field).Type()}
		} else {
			np := append(append([]pathElem{}, base.path...), pathElem{t, s, x.Field})
			fr.addrs[x] = &Addr{heap: base.heap, loc: base.loc, path: np, typ: s.Field(x.Field).Type()}
		}
		return st
	case *ssa.IndexAddr:
		idx := e.val(fr, x.Index)
		switch u := x.X.Type().Underlying().(type) {
		case *types.Slice:
			s := e.val(fr, x.X)
			if fr.idxBases != nil {
				if _, isParam := x.Index.(*ssa.Parameter); isParam {
					*fr.idxBases = append(*fr.idxBases, s)
				}
			}
			e.addOb(fr, "SAFE", "index", x.Pos(), e.exprText(x.Pos(), "index"), fmt.Sprintf("(and (<= 0 %s) (< %s (slen %s)))", idx, idx, s), false)
			e.assumeG(fmt.Sprintf("(and (<= 0 %s) (< %s (slen %s)))", idx, idx, s))
			fr.addrs[x] = &Addr{heap: e.elemHeap(u.Elem()), loc: Loc{"(sarr " + s + ")", "(+ (soff " + s + ") " + idx + ")"}, typ: u.Elem()}
		case *types.Pointer:
			arr, ok := u.Elem().Underlying().(*types.Array)
			if !ok {
				e.unsup("IndexAddr on pointer to non-array")
				return st
			}
			base := fr.addrs[x.X]
			triv := false
			if c, ok := x.Index.(*ssa.Const); ok {
				if i, ok := constant.Int64Val(c.Value); ok && i >= 0 && i < arr.Len() {
					triv = true
				}
			}
			e.addOb(fr, "SAFE", "index", x.Pos(), e.exprText(x.Pos(), "index"), fmt.Sprintf("(and (<= 0 %s) (< %s %d))", idx, idx, arr.Len()), triv)
			if base != nil && !base.whole {
				e.unsup("array embedded in a cell")
				return st
			}
			var ref string
			if base != nil {
				ref = base.loc[0]
			} else {
				ref = e.val(fr, x.X)
				e.addOb(fr, "SAFE", "nil", x.Pos(), e.exprText(x.Pos(), "index"), "(not (= "+ref+" 0))", e.allocTerms[ref])
			}
			fr.addrs[x] = &Addr{heap: e.elemHeap(arr.Elem()), loc: Loc{ref, idx}, typ: arr.Elem()}
		default:
			e.unsup("IndexAddr on " + x.X.Type().String())
		}
		return st
	case *ssa.Store:
		a := e.addrOf(fr, x.Addr)
		if a == nil {
			e.unsup("store through unknown address")
			return st
		}
		if _, isAddr := fr.addrs[x.Addr]; !isAddr {
			ref := a.loc[0]
			e.addOb(fr, "SAFE", "nil", x.Pos(), "*"+x.Addr.Name(), "(not (= "+ref+" 0))", e.allocTerms[ref] || e.globals[ref])
		}
		e.frameOb(fr, x.Pos(), e.storeText(x), a.loc[0], "")
		return e.store(fr, st, a, e.val(fr, x.Val))
	case *ssa.UnOp:
		switch x.Op {
		case token.MUL:
			a := e.addrOf(fr, x.X)
			if a == nil {
				e.unsup("load through unknown address")
				e.freeVal(fr, x)
				return st
			}
			if _, isAddr := fr.addrs[x.X]; !isAddr {
				ref := a.loc[0]
				e.addOb(fr, "SAFE", "nil", x.Pos(), e.exprText(x.Pos(), "star", "sel"), "(not (= "+ref+" 0))", e.allocTerms[ref] || e.globals[ref])
				e.assumeG("(not (= " + ref + " 0))")
			}
			n := e.setVal(fr, x, e.load(fr, st, a))
			e.loadFacts(fr, x, n)
		case token.NOT:
			e.setVal(fr, x, "(not "+e.val(fr, x.X)+")")
		case token.SUB:
			if e.d.sortOf(x.Type()) == "Int" {
				e.setVal(fr, x, "(- "+e.val(fr, x.X)+")")
			} else {
				e.freeVal(fr, x)
			}
		default:
			e.freeVal(fr, x)
		}
		return st
	case *ssa.BinOp:
		e.binop(fr, x)
		return st
	case *ssa.Field:
		s := x.X.Type().Underlying().(*types.Struct)
		e.d.structSort(x.X.Type(), s)
		n := e.setVal(fr, x, sel(x.X.Type(), s, x.Field, e.val(fr, x.X)))
		e.fieldFacts(x.X.Type(), s, x.Field, n)
		return st
	case *ssa.Index:
		idx := e.val(fr, x.Index)
		switch u := x.X.Type().Underlying().(type) {
		case *types.Basic: // string
			s := e.val(fr, x.X)
			e.addOb(fr, "SAFE", "index", x.Pos(), e.exprText(x.Pos(), "index"), fmt.Sprintf("(and (<= 0 %s) (< %s (strlen %s)))", idx, idx, s), false)
			e.d.decl("strbyte", "(Str Int) Int")
			n := e.setVal(fr, x, "(strbyte "+s+" "+idx+")")
			e.assume("(and (<= 0 " + n + ") (<= " + n + " 255))")
		case *types.Array:
			e.addOb(fr, "SAFE", "index", x.Pos(), e.exprText(x.Pos(), "index"), fmt.Sprintf("(and (<= 0 %s) (< %s %d))", idx, idx, u.Len()), isConst(x.Index))
			e.setVal(fr, x, "(select "+e.val(fr, x.X)+" "+idx+")")
		default:
			e.freeVal(fr, x)
		}
		return st
	case *ssa.Lookup:
		return e.lookup(fr, st, x)
	case *ssa.MapUpdate:
		m := x.Map.Type().Underlying().(*types.Map)
		mr := e.val(fr, x.Map)
		k, v := e.val(fr, x.Key), e.val(fr, x.Value)
		e.addOb(fr, "SAFE", "nilmap", x.Pos(), e.exprText(x.Pos(), "index"), "(not (= "+mr+" 0))", e.allocTerms[mr])
		e.frameOb(fr, x.Pos(), e.exprText(x.Pos(), "assign", "index"), mr, "")
		d, vv, l := e.mapHeaps(m)
		was := e.sel(e.view(st, d), d, Loc{mr, k})
		oldLen := e.sel(e.view(st, l), l, Loc{mr})
		for _, u := range [][3]string{{d, k, "true"}, {vv, k, v}} {
			ns := e.newState(sStore, st)
			ns.heap, ns.loc, ns.val = u[0], Loc{mr, u[1]}, u[2]
			st = ns
		}
		ns := e.newState(sStore, st)
		ns.heap, ns.loc, ns.val = l, Loc{mr}, "(ite "+was+" "+oldLen+" (+ "+oldLen+" 1))"
		return ns
	case *ssa.Slice:
		return e.sliceOp(fr, st, x)
	case *ssa.Convert:
		return e.convert(fr, st, x)
	case *ssa.ChangeType:
		e.setVal(fr, x, e.val(fr, x.X))
		if a, ok := fr.addrs[x.X]; ok {
			fr.addrs[x] = a
		}
		return st
	case *ssa.ChangeInterface:
		e.setVal(fr, x, e.val(fr, x.X))
		return st
	case *ssa.SliceToArrayPointer:
		e.freeVal(fr, x)
		e.unsup("SliceToArrayPointer")
		return st
	case *ssa.TypeAssert:
		e.typeAssert(fr, x)
		return st
	case *ssa.Extract:
		if ts, ok := fr.tup[x.Tuple]; ok && x.Index < len(ts) {
			n := e.setVal(fr, x, ts[x.Index])
			if nx, ok := x.Tuple.(*ssa.Next); ok && x.Index == 2 {
				e.rangeValFacts(fr, nx, x, n)
			}
		} else {
			e.freeVal(fr, x)
		}
		return st
	case *ssa.Range:
		fr.vals[x] = "0"
		return st
	case *ssa.Next:
		return e.next(fr, st, x)
	case *ssa.Call:
		return e.call(fr, st, x)
	case *ssa.Return:
		var vs []string
		for _, r := range x.Results {
			vs = append(vs, e.val(fr, r))
		}
		fr.rets = append(fr.rets, retInfo{reach: e.cur, vals: vs, st: st, instr: x})
		return st
	case *ssa.Panic:
		e.addOb(fr, "SAFE", "panic", x.Pos(), e.exprText(x.Pos(), "call"), "false", false)
		return st
	case *ssa.If, *ssa.Jump:
		return st
	case *ssa.Defer, *ssa.Go, *ssa.Select, *ssa.Send, *ssa.RunDefers, *ssa.MakeChan:
		e.unsup(fmt.Sprintf("%T", in))
		return st
	}
	if v, ok := in.(ssa.Value); ok {
		e.freeVal(fr, v)
	}
	e.unsup(fmt.Sprintf("instruction %T", in))
	return st
}

func isConst(v ssa.Value) bool { _, ok := v.(*ssa.Const); return ok }

func (e *Enc) storeText(x *ssa.Store) string {
	t := e.exprText(x.Pos(), "assign")
	if t == "" {
		t = e.exprText(x.Pos(), "lit", "sel", "index", "star")
	}
	if t == "" {
		t = "*" + x.Addr.Name()
	}
	return t
}

// alloc returns a fresh reference and bumps the allocation counter.
func (e *Enc) alloc(fr *Frame, st **State, v ssa.Value, kind string) string {
	r := e.freshConst(fr.pfx+kind+"_"+san(v.Name()), "Int")
	e.define(r, (*st).nxt)
	e.allocTerms[r] = true
	ns := e.newState(sStore, *st) // a no-op store node carrying the new counter
	ns.heap = ""
	ns.ver = (*st).ver
	nx := e.freshConst(fr.pfx+"nxt", "Int")
	e.define(nx, "(+ "+(*st).nxt+" 1)")
	ns.nxt = nx
	*st = ns
	return r
}

// allocAnon: a fresh reference not tied to an SSA value.
func (e *Enc) allocAnon(st **State, kind string) string {
	r := e.freshConst(kind, "Int")
	e.define(r, (*st).nxt)
	e.allocTerms[r] = true
	ns := e.newState(sStore, *st)
	ns.heap = ""
	ns.ver = (*st).ver
	nx := e.freshConst("nxt", "Int")
	e.define(nx, "(+ "+(*st).nxt+" 1)")
	ns.nxt = nx
	*st = ns
	return r
}

func (e *Enc) fill(st **State, heap, ref, val string) {
	ns := e.newState(sFill, *st)
	ns.heap, ns.loc, ns.val = heap, Loc{ref}, val
	*st = ns
}

func (e *Enc) box(t types.Type, v string) string {
	k := typeKey(t)
	srt := e.d.sortOf(t)
	e.d.decl("box_"+k, "("+srt+") Int")
	e.d.decl("unbox_"+k, "(Int) "+srt)
	b := "(box_" + k + " " + v + ")"
	e.assume("(= (unbox_" + k + " " + b + ") " + v + ")")
	return b
}

func (e *Enc) unbox(t types.Type, iv string) string {
	if isPointerShaped(t) {
		return iv
	}
	k := typeKey(t)
	srt := e.d.sortOf(t)
	e.d.decl("box_"+k, "("+srt+") Int")
	e.d.decl("unbox_"+k, "(Int) "+srt)
	u := "(unbox_" + k + " " + iv + ")"
	return u
}

// addrEscapes: the address of the allocation is used by anything but field/element addressing, loads
// and stores through it.
func addrEscapes(v ssa.Value) bool {
	refs := v.Referrers()
	if refs == nil {
		return true
	}
	for _, r := range *refs {
		switch x := r.(type) {
		case *ssa.FieldAddr:
			if addrEscapes(x) {
				return true
			}
		case *ssa.IndexAddr:
			if addrEscapes(x) {
				return true
			}
		case *ssa.UnOp:
			// load
		case *ssa.Store:
			if x.Val == v {
				return true
			}
		case *ssa.DebugRef:
		default:
			return true
		}
	}
	return false
}

func rootAllocOf(v ssa.Value) *ssa.Alloc {
	for {
		switch x := v.(type) {
		case *ssa.Alloc:
			return x
		case *ssa.FieldAddr:
			v = x.X
		case *ssa.IndexAddr:
			if _, ok := x.X.Type().Underlying().(*types.Pointer); ok {
				v = x.X
			} else {
				return nil
			}
		default:
			return nil
		}
	}
}
