package main

import (
	"bufio"
	"fmt"
	"go/types"
	"os"
	"path/filepath"
	"regexp"
	"sort"
	"strconv"
	"strings"

	"golang.org/x/tools/go/ssa"
)

// Contract of one function (or interface method). Expressions are Go-syntax text.
type Contract struct {
	Key      string // short function name, or Iface.Method
	Params   []string
	Results  []string
	Requires []Clause
	Ensures  []Clause
	Modifies []string
	ModNothing bool
	LoopInv  map[int][]Clause
	LoopDec  map[int]string
	LoopComplete map[int][]string
	Trusted  bool
	File     string
	Line     int
	Ghost    []string
	Props    []string // properties this contract serves (tags)
	IterEns  map[int][]Clause
	last     *Clause
	Generated bool
	IsIface  bool
	Ghosts   []SiteClause
	Asserts  []SiteClause
}

// SiteClause: a clause attached to the k-th call (in source order) of a callee inside the function.
type SiteClause struct {
	Name   string // ghost name
	Callee string
	K      int
	Clause Clause
}

type Clause struct {
	Text string
	Tags []string // property ids, e.g. C06
	Line int
	Name string
	Family string // obligation family when not POST (e.g. COPY)
}

type SpecFn struct {
	Name   string
	Params []types.Type
	Res    types.Type
	PNames []string
	Def    string // optional definitional body (Go expr over params): inlined as a macro
}

type Specs struct {
	boolGhosts map[string]bool // "<function>|<ghost>" (from the baseline)
	loopComplete map[string]map[int][]string
	returnsSorted map[string][]string
	contracts map[string]*Contract
	ifaces    map[string]*Contract // "pkg.Iface.Method"
	specFns   map[string]*SpecFn
	pure      map[string]bool
	mutators  map[string]bool
	noInline  map[string]bool
	inlineOK  []*regexp.Regexp
	nonnilField map[string]bool
	nonnilElem  map[string]bool
	nonnilMapVal map[string]bool
	nonnilResult map[string]bool
	nonnilIface  map[string]bool
	files     []string
	errs      []string
	w         *World
	pkgByName map[string]*types.Package
	rawLines  int
	typeInv   map[string][]Clause // type key -> invariant clauses over "v"
	lemmas    []*Lemma
	generated []string
	unorderedOK map[string]string
	structInv map[string][]Clause
	pureMethod map[string]bool
	siteTags   map[string][]string
	readerExt  []*regexp.Regexp
}

type Lemma struct {
	Name  string
	Vars  []string // "name type"
	Text  string
	Tags  []string
	Pkg   *types.Package
}

func (s *Specs) contractFor(f *ssa.Function) *Contract {
	if s == nil || f == nil {
		return nil
	}
	return s.contracts[shortName(f)]
}

func (s *Specs) isMutator(f *ssa.Function) bool { return s.mutators[shortName(f)] }

func (s *Specs) inlineDep(f *ssa.Function) bool {
	n := shortName(f)
	for _, r := range s.inlineOK {
		if r.MatchString(n) {
			return true
		}
	}
	return false
}

func (s *Specs) ifaceContract(it types.Type, method string) *Contract {
	n, ok := it.(*types.Named)
	if !ok || n.Obj().Pkg() == nil {
		return nil
	}
	return s.ifaces[n.Obj().Pkg().Name()+"."+n.Obj().Name()+"."+method]
}

// loadSpecs reads the guarded contract files of /repo and the trusted specs of /verif/trusted.
func loadSpecs(w *World, trustedDir string) *Specs {
	s := &Specs{loopComplete: map[string]map[int][]string{}, returnsSorted: map[string][]string{}, contracts: map[string]*Contract{}, ifaces: map[string]*Contract{}, specFns: map[string]*SpecFn{}, pure: map[string]bool{},
		mutators: map[string]bool{}, noInline: map[string]bool{}, nonnilField: map[string]bool{}, nonnilElem: map[string]bool{},
		nonnilMapVal: map[string]bool{}, nonnilResult: map[string]bool{}, nonnilIface: map[string]bool{}, unorderedOK: map[string]string{}, structInv: map[string][]Clause{}, pureMethod: map[string]bool{}, siteTags: map[string][]string{}, w: w, pkgByName: map[string]*types.Package{}, typeInv: map[string][]Clause{}}
	for _, p := range w.prog.AllPackages() {
		name := p.Pkg.Name()
		if old, ok := s.pkgByName[name]; ok {
			// prefer hcl-lang's own packages, then hcl / cty
			if w.mine[old] || strings.Contains(old.Path(), "hashicorp/hcl/v2") || strings.Contains(old.Path(), "go-cty/cty") && !strings.Contains(p.Pkg.Path(), "hashicorp") {
				continue
			}
		}
		s.pkgByName[name] = p.Pkg
	}
	var files []string
	filepath.Walk(w.repo, func(path string, info os.FileInfo, err error) error {
		if err == nil && !info.IsDir() && strings.HasPrefix(info.Name(), "zz_verif_contracts") && strings.HasSuffix(info.Name(), ".go") && !strings.HasSuffix(info.Name(), "_test.go") {
			files = append(files, path)
		}
		return nil
	})
	tf, _ := filepath.Glob(filepath.Join(trustedDir, "*.spec"))
	sort.Strings(files)
	sort.Strings(tf)
	for _, f := range tf {
		s.parseFile(f, true)
	}
	for _, f := range files {
		s.parseFile(f, false)
	}
	s.files = append(tf, files...)
	w.readOnlyExt = func(name string) bool {
		for _, r := range s.readerExt {
			if r.MatchString(name) {
				return true
			}
		}
		return false
	}
	s.addGeneratedCopyContracts(w)
	return s
}

var tagRe = regexp.MustCompile(`^\[([A-Za-z0-9_,:\- ]+)\]\s*`)

func splitTags(t string) (string, []string, string) {
	var tags []string
	name := ""
	if m := tagRe.FindStringSubmatch(t); m != nil {
		for _, x := range strings.Split(m[1], ",") {
			x = strings.TrimSpace(x)
			if strings.HasPrefix(x, "name:") {
				name = strings.TrimPrefix(x, "name:")
			} else if x != "" {
				tags = append(tags, x)
			}
		}
		t = t[len(m[0]):]
	}
	return t, tags, name
}

func (s *Specs) parseFile(path string, trusted bool) {
	fh, err := os.Open(path)
	if err != nil {
		return
	}
	defer fh.Close()
	sc := bufio.NewScanner(fh)
	sc.Buffer(make([]byte, 1<<20), 1<<20)
	var cur *Contract
	var pkg string
	ln := 0
	for sc.Scan() {
		ln++
		line := strings.TrimSpace(sc.Text())
		if strings.HasPrefix(line, "package ") {
			pkg = strings.TrimSpace(strings.TrimPrefix(line, "package "))
			continue
		}
		if trusted {
			if strings.HasPrefix(line, "#") || line == "" {
				continue
			}
		} else {
			if !strings.HasPrefix(line, "//@") {
				continue
			}
			line = strings.TrimSpace(strings.TrimPrefix(line, "//@"))
			if line == "" {
				continue
			}
		}
		s.rawLines++
		word, rest := line, ""
		if i := strings.IndexAny(line, " \t"); i >= 0 {
			word, rest = line[:i], strings.TrimSpace(line[i+1:])
		}
		// continuation lines (start with "|")
		if word == "|" && cur != nil {
			s.appendCont(cur, rest)
			continue
		}
		switch word {
		case "contract", "trusted", "iface":
			key, params, results := parseHeader(rest)
			cur = &Contract{Key: key, Params: params, Results: results, Trusted: word == "trusted" || trusted, LoopInv: map[int][]Clause{}, LoopDec: map[int]string{}, IterEns: map[int][]Clause{}, File: path, Line: ln}
			if word == "iface" {
				cur.IsIface = true
				s.ifaces[key] = cur
			} else {
				if _, dup := s.contracts[key]; dup {
					s.errs = append(s.errs, fmt.Sprintf("%s:%d duplicate contract %s", path, ln, key))
				}
				s.contracts[key] = cur
			}
			_ = pkg
		case "requires":
			if cur != nil {
				t, tags, nm := splitTags(rest)
				cur.Requires = append(cur.Requires, Clause{Text: t, Tags: tags, Line: ln, Name: nm})
				cur.last = &cur.Requires[len(cur.Requires)-1]
			}
		case "ensures":
			if cur != nil {
				t, tags, nm := splitTags(rest)
				cur.Ensures = append(cur.Ensures, Clause{Text: t, Tags: tags, Line: ln, Name: nm})
				cur.last = &cur.Ensures[len(cur.Ensures)-1]
			}
		case "modifies":
			if cur != nil {
				if rest == "nothing" {
					cur.ModNothing = true
				} else {
					for _, m := range strings.Split(rest, ",") {
						cur.Modifies = append(cur.Modifies, strings.TrimSpace(m))
					}
				}
			}
		case "loop":
			if cur != nil {
				f := strings.SplitN(rest, " ", 3)
				if len(f) == 3 {
					n, _ := strconv.Atoi(f[0])
					switch f[1] {
					case "invariant":
						t, tags, nm := splitTags(strings.TrimSpace(f[2]))
						cur.LoopInv[n] = append(cur.LoopInv[n], Clause{Text: t, Tags: tags, Line: ln, Name: nm})
						l := cur.LoopInv[n]
						cur.last = &l[len(l)-1]
					case "iter":
						t, tags, nm := splitTags(strings.TrimSpace(f[2]))
						cur.IterEns[n] = append(cur.IterEns[n], Clause{Text: t, Tags: tags, Line: ln, Name: nm})
						l := cur.IterEns[n]
						cur.last = &l[len(l)-1]
					case "decreases":
						cur.LoopDec[n] = f[2]
					case "complete":
						// loop N complete [tags]: the loop is left only when its range is exhausted (no break, no
						// return inside): every element is examined
						_, tags, _ := splitTags(strings.TrimSpace(f[2]) + " true")
						if cur.LoopComplete == nil {
							cur.LoopComplete = map[int][]string{}
						}
						cur.LoopComplete[n] = tags
					}
				}
			}
		case "ghost", "assert":
			// ghost <name> after <callee>#<k> : <expr>      assert before <callee>#<k> : [tags] <expr>
			if cur != nil {
				if i := strings.Index(rest, " : "); i > 0 {
					head := strings.Fields(rest[:i])
					t, tags, nm := splitTags(strings.TrimSpace(rest[i+3:]))
					sc := SiteClause{Clause: Clause{Text: t, Tags: tags, Line: ln, Name: nm}}
					site := ""
					if word == "ghost" && len(head) == 3 {
						sc.Name, site = head[0], head[2]
					} else if word == "assert" && len(head) == 2 {
						site = head[1]
					}
					if j := strings.LastIndex(site, "#"); j > 0 {
						sc.Callee = site[:j]
						sc.K, _ = strconv.Atoi(site[j+1:])
						if word == "ghost" {
							cur.Ghosts = append(cur.Ghosts, sc)
							cur.last = &cur.Ghosts[len(cur.Ghosts)-1].Clause
						} else {
							cur.Asserts = append(cur.Asserts, sc)
							cur.last = &cur.Asserts[len(cur.Asserts)-1].Clause
						}
					} else {
						s.errs = append(s.errs, fmt.Sprintf("%s:%d bad site in %s", path, ln, word))
					}
				}
			}
		case "spec":
			s.parseSpecFn(rest, path, ln)
		case "pure":
			s.pure[rest] = true
		case "reader-external":
			if r, err := regexp.Compile(rest); err == nil {
				s.readerExt = append(s.readerExt, r)
			}
		case "pure-method":
			s.pureMethod[rest] = true
			s.w.declaredPure[rest] = true
		case "mutator":
			s.mutators[rest] = true
		case "noinline":
			s.noInline[rest] = true
		case "inline":
			if r, err := regexp.Compile(rest); err == nil {
				s.inlineOK = append(s.inlineOK, r)
			}
		case "nonnil":
			s.nonnilField[rest] = true
		case "elem-nonnil":
			s.nonnilElem[rest] = true
		case "mapval-nonnil":
			s.nonnilMapVal[rest] = true
		case "also-serves":
			// also-serves <func> <property,...>: the NONDET obligations of this function also decide these properties
			f := strings.Fields(rest)
			if len(f) == 2 {
				s.siteTags[f[0]] = strings.Split(f[1], ",")
			}
		case "loop-complete":
			// loop-complete <func> <N> <tags>: like "loop N complete [tags]" inside a contract, without creating one
			f := strings.Fields(rest)
			if len(f) == 3 {
				n, _ := strconv.Atoi(f[1])
				if s.loopComplete[f[0]] == nil {
					s.loopComplete[f[0]] = map[int][]string{}
				}
				s.loopComplete[f[0]][n] = strings.Split(f[2], ",")
			}
		case "returns-sorted":
			// returns-sorted <func> <tags>: the slice the function returns is the slice its last sort call sorted
			// (with the comparator contract: results are in source order)
			f := strings.Fields(rest)
			if len(f) >= 1 {
				tags := []string{}
				if len(f) >= 2 {
					tags = strings.Split(f[1], ",")
				}
				s.returnsSorted[f[0]] = tags
			}
		case "maprange-unordered":
			// maprange-unordered <func> <loop ordinal> <reason>: the loop's result is an unordered collection by the property's wording
			f := strings.SplitN(rest, " ", 3)
			if len(f) == 3 {
				s.unorderedOK[f[0]+"#"+f[1]] = f[2]
			}
		case "iface-nonnil":
			s.nonnilIface[rest] = true
		case "result-nonnil":
			s.nonnilResult[rest] = true
		case "structinv":
			// structinv <pkg.Type> : <expr over v (a pointer to the struct)>; assumed wherever a field of such a struct is read
			if i := strings.Index(rest, ":"); i > 0 {
				k := strings.TrimSpace(rest[:i])
				s.structInv[k] = append(s.structInv[k], Clause{Text: strings.TrimSpace(rest[i+1:]), Line: ln})
			}
		case "typeinv":
			// typeinv <type key> : <expr over v>
			if i := strings.Index(rest, ":"); i > 0 {
				k := strings.TrimSpace(rest[:i])
				t, tags, nm := splitTags(strings.TrimSpace(rest[i+1:]))
				s.typeInv[k] = append(s.typeInv[k], Clause{Text: t, Tags: tags, Line: ln, Name: nm})
			}
		case "lemma":
			// lemma name (x T, y U) : expr
			s.parseLemma(rest, path, ln, pkg)
		default:
			s.errs = append(s.errs, fmt.Sprintf("%s:%d unknown directive %q", path, ln, word))
		}
	}
}

func (s *Specs) appendCont(c *Contract, rest string) {
	if c.last != nil {
		c.last.Text += " " + rest
	}
}

// parseHeader: "<key> (a, b) (r, err)"; the key may itself contain parentheses, e.g. decoder.(*PathDecoder).f
func parseHeader(rest string) (string, []string, []string) {
	rest = strings.TrimSpace(rest)
	// key ends at the first space at paren depth 0
	depth := 0
	end := len(rest)
	for i, c := range rest {
		if c == '(' {
			depth++
		} else if c == ')' {
			depth--
		} else if (c == ' ' || c == '\t') && depth == 0 {
			end = i
			break
		}
	}
	key := rest[:end]
	tail := strings.TrimSpace(rest[end:])
	var groups [][]string
	for strings.HasPrefix(tail, "(") {
		j := strings.Index(tail, ")")
		if j < 0 {
			break
		}
		var names []string
		for _, n := range strings.Split(tail[1:j], ",") {
			n = strings.TrimSpace(n)
			if n != "" {
				names = append(names, n)
			}
		}
		groups = append(groups, names)
		tail = strings.TrimSpace(tail[j+1:])
	}
	var p, r []string
	if len(groups) > 0 {
		p = groups[0]
	}
	if len(groups) > 1 {
		r = groups[1]
	}
	return key, p, r
}

// parseSpecFn: "name(p T, q U) R" or "name(p T) R = <expr>"
func (s *Specs) parseSpecFn(rest, path string, ln int) {
	def := ""
	if i := strings.Index(rest, " = "); i > 0 {
		def = strings.TrimSpace(rest[i+3:])
		rest = strings.TrimSpace(rest[:i])
	}
	i := strings.Index(rest, "(")
	j := strings.LastIndex(rest, ")")
	if i < 0 || j < i {
		s.errs = append(s.errs, fmt.Sprintf("%s:%d bad spec", path, ln))
		return
	}
	fn := &SpecFn{Name: strings.TrimSpace(rest[:i]), Def: def}
	for _, p := range splitTop(rest[i+1:j], ',') {
		p = strings.TrimSpace(p)
		if p == "" {
			continue
		}
		k := strings.IndexAny(p, " \t")
		if k < 0 {
			s.errs = append(s.errs, fmt.Sprintf("%s:%d bad spec param %q", path, ln, p))
			return
		}
		t, err := s.parseType(strings.TrimSpace(p[k+1:]))
		if err != nil {
			s.errs = append(s.errs, fmt.Sprintf("%s:%d %v", path, ln, err))
			return
		}
		fn.PNames = append(fn.PNames, p[:k])
		fn.Params = append(fn.Params, t)
	}
	rt, err := s.parseType(strings.TrimSpace(rest[j+1:]))
	if err != nil {
		s.errs = append(s.errs, fmt.Sprintf("%s:%d %v", path, ln, err))
		return
	}
	fn.Res = rt
	s.specFns[fn.Name] = fn
}

func (s *Specs) parseLemma(rest, path string, ln int, pkg string) {
	i := strings.Index(rest, "(")
	j := strings.Index(rest, ")")
	k := strings.Index(rest, ":")
	if i < 0 || j < i || k < j {
		s.errs = append(s.errs, fmt.Sprintf("%s:%d bad lemma", path, ln))
		return
	}
	l := &Lemma{Name: strings.TrimSpace(rest[:i])}
	for _, p := range splitTop(rest[i+1:j], ',') {
		if strings.TrimSpace(p) != "" {
			l.Vars = append(l.Vars, strings.TrimSpace(p))
		}
	}
	t, tags, _ := splitTags(strings.TrimSpace(rest[k+1:]))
	l.Text, l.Tags = t, tags
	s.lemmas = append(s.lemmas, l)
}

func splitTop(s string, sep rune) []string {
	var out []string
	depth := 0
	last := 0
	for i, c := range s {
		switch c {
		case '(', '[', '{':
			depth++
		case ')', ']', '}':
			depth--
		default:
			if c == sep && depth == 0 {
				out = append(out, s[last:i])
				last = i + 1
			}
		}
	}
	return append(out, s[last:])
}

// parseType: a tiny Go type parser ([]T, *T, map[K]V, pkg.Name, basic names).
func (s *Specs) parseType(t string) (types.Type, error) {
	t = strings.TrimSpace(t)
	switch {
	case strings.HasPrefix(t, "[]"):
		el, err := s.parseType(t[2:])
		if err != nil {
			return nil, err
		}
		return types.NewSlice(el), nil
	case strings.HasPrefix(t, "*"):
		el, err := s.parseType(t[1:])
		if err != nil {
			return nil, err
		}
		return types.NewPointer(el), nil
	case strings.HasPrefix(t, "map["):
		depth := 0
		for i, c := range t {
			if c == '[' {
				depth++
			} else if c == ']' {
				depth--
				if depth == 0 {
					k, err := s.parseType(t[4:i])
					if err != nil {
						return nil, err
					}
					v, err := s.parseType(t[i+1:])
					if err != nil {
						return nil, err
					}
					return types.NewMap(k, v), nil
				}
			}
		}
		return nil, fmt.Errorf("bad map type %q", t)
	}
	if i := strings.Index(t, "."); i > 0 {
		p := s.pkgByName[t[:i]]
		if p == nil {
			return nil, fmt.Errorf("unknown package in type %q", t)
		}
		o := p.Scope().Lookup(t[i+1:])
		if tn, ok := o.(*types.TypeName); ok {
			return tn.Type(), nil
		}
		return nil, fmt.Errorf("unknown type %q", t)
	}
	if o := types.Universe.Lookup(t); o != nil {
		if tn, ok := o.(*types.TypeName); ok {
			return tn.Type(), nil
		}
	}
	return nil, fmt.Errorf("unknown type %q", t)
}
