package main

import (
	"flag"
	"fmt"
	"os"
	"regexp"
	"sort"
	"strings"
	"sync"
	"time"

	"golang.org/x/tools/go/ssa"
)

type funcResult struct {
	fn     *ssa.Function
	enc    *Enc
	panicked string
	encMs  int
	solveMs int
}

// verifyAll encodes and solves the given functions in parallel.
func verifyAll(w *World, spec *Specs, fns []*ssa.Function, opt solveOpts, workers int, configure func(*Enc)) []*funcResult {
	res := make([]*funcResult, len(fns))
	var wg sync.WaitGroup
	sem := make(chan struct{}, workers)
	var mu sync.Mutex // the encoder reads shared go/types data only; SSA is immutable after Build
	_ = mu
	for i, f := range fns {
		i, f := i, f
		wg.Add(1)
		sem <- struct{}{}
		go func() {
			defer wg.Done()
			defer func() { <-sem }()
			r := &funcResult{fn: f}
			res[i] = r
			t0 := time.Now()
			e := newEnc(w, f, spec)
			if configure != nil {
				configure(e)
			}
			func() {
				defer func() {
					if p := recover(); p != nil {
						r.panicked = fmt.Sprint(p)
					}
				}()
				e.verifyFunc()
				e.finish()
			}()
			r.enc = e
			r.encMs = int(time.Since(t0).Milliseconds())
			if os.Getenv("GOVC_PROGRESS") != "" {
				sz := 0
				for _, l := range e.lines {
					sz += len(l)
				}
				fmt.Fprintf(os.Stderr, "enc %s %dms lines=%d bytes=%d obs=%d\n", shortName(f), r.encMs, len(e.lines), sz, len(e.obs))
			}
			if r.panicked != "" {
				return
			}
			t1 := time.Now()
			e.solve(opt)
			r.solveMs = int(time.Since(t1).Milliseconds())
			if os.Getenv("GOVC_PROGRESS") != "" {
				fmt.Fprintf(os.Stderr, "solve %s %dms\n", shortName(f), r.solveMs)
			}
		}()
	}
	wg.Wait()
	return res
}

func main() {
	if len(os.Args) < 2 {
		fmt.Fprintln(os.Stderr, "usage: govc sweep|check|dump ...")
		os.Exit(2)
	}
	switch os.Args[1] {
	case "sweep":
		sweepCmd(os.Args[2:])
	case "check":
		os.Exit(checkCmd(os.Args[2:]))
	case "replay":
		os.Exit(replayCmd(os.Args[2:]))
	case "loops":
		// lists every loop of the hcl-lang functions with its ordinal and whether it can be left early
		w, err := loadWorld("/repo")
		if err != nil {
			fmt.Fprintln(os.Stderr, err)
			os.Exit(2)
		}
		for _, f := range w.funcs {
			loops := findLoops(f)
			for h, li := range loops {
				early := false
				for b := range li.body {
					for _, sb := range b.Succs {
						if !li.body[sb] && b != h {
							early = true
						}
					}
					if len(b.Succs) == 0 {
						early = true
					}
				}
				fmt.Printf("%s\t%d\t%v\t%s\n", shortName(f), li.ord, early, shortPath(w.prog.Fset.Position(f.Pos()).Filename))
			}
		}
	case "copyreplay":
		os.Exit(copyReplayAll(os.Args[2:]))
	default:
		fmt.Fprintln(os.Stderr, "unknown command", os.Args[1])
		os.Exit(2)
	}
}

func sweepCmd(args []string) {
	fs := flag.NewFlagSet("sweep", flag.ExitOnError)
	repo := fs.String("repo", "/repo", "")
	only := fs.String("only", "", "regexp on short function name")
	verbose := fs.Bool("v", false, "list failing obligations")
	dump := fs.String("dump", "", "directory for .smt2 files")
	ms := fs.Int("ms", 3000, "per query timeout")
	family := fs.String("family", "", "only this family in the listing")
	trusted := fs.String("trusted", "/verif/trusted", "")
	portfolio := fs.Bool("portfolio", false, "")
	fs.Parse(args)
	t0 := time.Now()
	w, err := loadWorld(*repo)
	if err != nil {
		fmt.Fprintln(os.Stderr, err)
		os.Exit(2)
	}
	spec := loadSpecs(w, *trusted)
	for _, e := range spec.errs {
		fmt.Println("SPEC ERROR", e)
	}
	fmt.Printf("loaded %d functions in %v; %d contracts, %d spec lines\n", len(w.funcs), time.Since(t0), len(spec.contracts), spec.rawLines)
	var fns []*ssa.Function
	var re *regexp.Regexp
	if *only != "" {
		re = regexp.MustCompile(*only)
	}
	for _, f := range w.funcs {
		if re == nil || re.MatchString(shortName(f)) {
			fns = append(fns, f)
		}
	}
	t1 := time.Now()
	res := verifyAll(w, spec, fns, solveOpts{quickMs: *ms, retryMs: *ms, portfolio: *portfolio, dumpDir: *dump}, 16, nil)
	fmt.Printf("verified %d functions in %v\n", len(fns), time.Since(t1))
	if *only == "" || *family == "NONDET" {
		for _, x := range extraObligations(w, spec, "", solveOpts{quickMs: *ms, retryMs: *ms}) {
			res = append(res, &funcResult{fn: x.enc.top, enc: &Enc{obs: x.obs, top: x.enc.top}})
		}
	}
	type key struct{ fam, v string }
	cnt := map[key]int{}
	tot, triv := 0, 0
	unsup := map[string]int{}
	var fails []*Oblig
	for _, r := range res {
		if r.panicked != "" {
			fmt.Println("ENCODER PANIC", shortName(r.fn), r.panicked)
			continue
		}
		for _, u := range r.enc.unsupported {
			unsup[u]++
		}
		for _, be := range r.enc.bindErrs {
			fmt.Println("BIND ERROR", be)
		}
		for _, se := range r.enc.solverErrs {
			fmt.Println("SOLVER ERROR", shortName(r.fn), se)
		}
		for _, o := range r.enc.obs {
			tot++
			if o.trivial {
				triv++
			}
			cnt[key{o.Family, o.Verdict}]++
			bad := o.Verdict != "unsat" && o.Verdict != "dropped"
			if o.Family == "VAC" {
				bad = o.Verdict != "sat"
			}
			if bad && (*family == "" || *family == o.Family) {
				fails = append(fails, o)
			}
		}
	}
	fmt.Printf("obligations %d (syntactic %d)\n", tot, triv)
	var ks []key
	for k := range cnt {
		ks = append(ks, k)
	}
	sort.Slice(ks, func(i, j int) bool { return ks[i].fam+ks[i].v < ks[j].fam+ks[j].v })
	for _, k := range ks {
		fmt.Printf("  %-6s %-8s %d\n", k.fam, k.v, cnt[k])
	}
	var us []string
	for u, n := range unsup {
		us = append(us, fmt.Sprintf("%4d %s", n, u))
	}
	sort.Strings(us)
	for _, u := range us {
		fmt.Println("UNSUPPORTED", u)
	}
	if *verbose {
		for _, o := range fails {
			fmt.Printf("FAIL %-7s %s [%s %dms] %s\n", o.Verdict, o.Name, o.Solver, o.Ms, strings.ReplaceAll(o.Output, "\n", " | "))
		}
	}
}
