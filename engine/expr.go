package main

import (
	"fmt"
	"go/ast"
	"go/constant"
	"go/parser"
	"go/token"
	"go/types"
	"strconv"
	"strings"

	"golang.org/x/tools/go/ssa"
)

type tval struct {
	t   string
	typ types.Type
	pkg *types.Package // non-nil: this is a package name
	isNil bool
	cell *Addr // non-nil: a variable living in memory; its value is read in the state of evaluation
}

var untypedInt = types.Typ[types.UntypedInt]

// ExprEnv evaluates contract expressions at a program point.
type ExprEnv struct {
	e    *Enc
	fr   *Frame
	vars map[string]tval
	st   *State
	old  *State
	a0   string
	pkg  *types.Package
	errs []string
	assuming bool                    // the formula will be assumed (callee postcondition at a call site), not proved
	oldVars map[string]tval           // values of loop variables at the loop head (iter clauses)
	visited func(k string) string     // the visited-set of the enclosing map range at this point
	at      *ssa.BasicBlock            // the block of the return a postcondition is evaluated at
}

func (x *ExprEnv) errf(f string, a ...interface{}) tval {
	x.errs = append(x.errs, fmt.Sprintf(f, a...))
	return tval{t: "false", typ: types.Typ[types.Bool]}
}

// formula parses and translates a Boolean contract expression.
func (x *ExprEnv) formula(text string) (string, error) {
	ex, err := parser.ParseExpr(text)
	if err != nil {
		return "", fmt.Errorf("parse %q: %v", text, err)
	}
	mark := x.e.mark()
	v := x.tr(ex)
	if len(x.errs) > 0 {
		// nothing a failed translation asserted on the way (inlined callees of ill-typed placeholders) stays
		x.e.rollback(mark)
		return "", fmt.Errorf("%s: %s", text, strings.Join(x.errs, "; "))
	}
	if x.e.d.sortOf(v.typ) != "Bool" {
		return "", fmt.Errorf("%s: not Boolean", text)
	}
	return v.t, nil
}

func (x *ExprEnv) term(text string) (tval, error) {
	ex, err := parser.ParseExpr(text)
	if err != nil {
		return tval{}, fmt.Errorf("parse %q: %v", text, err)
	}
	mark := x.e.mark()
	v := x.tr(ex)
	if len(x.errs) > 0 {
		x.e.rollback(mark)
		return tval{}, fmt.Errorf("%s: %s", text, strings.Join(x.errs, "; "))
	}
	return v, nil
}

type encMark struct{ lines, obs, axioms, undo int }

func (e *Enc) mark() encMark { return encMark{len(e.lines), len(e.obs), len(e.axioms), len(e.undo)} }

// rollback drops what was emitted since the mark, and forgets the memo entries created since then (their
// defining assumptions are among the dropped lines: a later use must emit them again).
func (e *Enc) rollback(m encMark) {
	for i := len(e.undo) - 1; i >= m.undo; i-- {
		e.undo[i]()
	}
	if len(e.undo) > m.undo {
		e.undo = e.undo[:m.undo]
	}
	if len(e.lines) > m.lines {
		e.lines = e.lines[:m.lines]
	}
	if len(e.obs) > m.obs {
		e.obs = e.obs[:m.obs]
	}
	if len(e.axioms) > m.axioms {
		e.axioms = e.axioms[:m.axioms]
	}
}

func (x *ExprEnv) withState(st *State) *ExprEnv {
	c := *x
	c.st = st
	return &c
}

func (x *ExprEnv) tr(ex ast.Expr) tval {
	e := x.e
	switch n := ex.(type) {
	case *ast.ParenExpr:
		return x.tr(n.X)
	case *ast.BasicLit:
		switch n.Kind {
		case token.INT:
			v, _ := strconv.ParseInt(n.Value, 0, 64)
			return tval{t: intLit(v), typ: untypedInt}
		case token.STRING:
			s, _ := strconv.Unquote(n.Value)
			return tval{t: e.strConst(s), typ: types.Typ[types.String]}
		case token.CHAR:
			s, _ := strconv.Unquote(n.Value)
			r := []rune(s)
			return tval{t: intLit(int64(r[0])), typ: untypedInt}
		}
		return x.errf("literal %s", n.Value)
	case *ast.Ident:
		return x.ident(n.Name)
	case *ast.SelectorExpr:
		b := x.tr(n.X)
		if b.pkg != nil {
			return x.pkgMember(b.pkg, n.Sel.Name)
		}
		return x.selectField(b, n.Sel.Name)
	case *ast.StarExpr:
		b := x.tr(n.X)
		pt, ok := b.typ.Underlying().(*types.Pointer)
		if !ok {
			return x.errf("deref of non-pointer")
		}
		a := e.addrOfRef(b.t, pt.Elem())
		return tval{t: e.load(x.fr, x.st, a), typ: pt.Elem()}
	case *ast.UnaryExpr:
		b := x.tr(n.X)
		switch n.Op {
		case token.NOT:
			return tval{t: "(not " + b.t + ")", typ: types.Typ[types.Bool]}
		case token.SUB:
			return tval{t: "(- " + b.t + ")", typ: b.typ}
		}
		return x.errf("unary %s", n.Op)
	case *ast.BinaryExpr:
		return x.binary(n)
	case *ast.IndexExpr:
		b := x.tr(n.X)
		i := x.tr(n.Index)
		switch u := b.typ.Underlying().(type) {
		case *types.Slice:
			h := e.elemHeap(u.Elem())
			return tval{t: e.sel(e.view(x.st, h), h, Loc{"(sarr " + b.t + ")", "(+ (soff " + b.t + ") " + i.t + ")"}), typ: u.Elem()}
		case *types.Map:
			d, v, _ := e.mapHeaps(u)
			in := "(and (not (= " + b.t + " 0)) " + e.sel(e.view(x.st, d), d, Loc{b.t, i.t}) + ")"
			return tval{t: "(ite " + in + " " + e.sel(e.view(x.st, v), v, Loc{b.t, i.t}) + " " + e.d.zero(u.Elem()) + ")", typ: u.Elem()}
		case *types.Basic:
			e.d.decl("strbyte", "(Str Int) Int")
			return tval{t: "(strbyte " + b.t + " " + i.t + ")", typ: types.Typ[types.Uint8]}
		}
		return x.errf("index of %s", b.typ)
	case *ast.CallExpr:
		return x.call(n)
	}
	return x.errf("unsupported expression %T", ex)
}

func (x *ExprEnv) ident(name string) tval {
	switch name {
	case "true", "false":
		return tval{t: name, typ: types.Typ[types.Bool]}
	case "nil":
		return tval{t: "0", typ: types.Typ[types.UntypedNil], isNil: true}
	}
	if v, ok := x.vars[name]; ok {
		if v.cell != nil {
			v.t = x.e.load(x.fr, x.st, v.cell)
			v.cell = nil
		}
		return v
	}
	if g, ok := x.e.ghost[name]; ok {
		t := x.e.ghostType[name]
		if t == nil {
			t = types.Typ[types.Bool]
		}
		return tval{t: g, typ: t}
	}
	if x.pkg != nil {
		if o := x.pkg.Scope().Lookup(name); o != nil {
			return x.pkgMember(x.pkg, name)
		}
	}
	if p, ok := x.e.spec.pkgByName[name]; ok {
		return tval{pkg: p}
	}
	// a ghost the contract declares but whose call site no longer exists: the clause cannot be stated
	// (this is not "a local that does not exist on this path")
	if x.fr != nil && x.fr.contract != nil {
		for _, g := range x.fr.contract.Ghosts {
			if g.Name == name {
				return x.errf("ghost %s is not bound (its call site is gone): unknown identifier in a ghost", name)
			}
		}
	}
	return x.errf("unknown identifier %s", name)
}

func (x *ExprEnv) pkgMember(p *types.Package, name string) tval {
	o := p.Scope().Lookup(name)
	switch ob := o.(type) {
	case *types.Const:
		switch x.e.d.sortOf(ob.Type()) {
		case "Int":
			if i, ok := constant.Int64Val(constant.ToInt(ob.Val())); ok {
				return tval{t: intLit(i), typ: ob.Type()}
			}
		case "Str":
			return tval{t: x.e.strConst(constant.StringVal(ob.Val())), typ: ob.Type()}
		case "Bool":
			return tval{t: fmt.Sprint(constant.BoolVal(ob.Val())), typ: ob.Type()}
		}
	case *types.Var:
		sp := x.e.w.prog.Package(p)
		if sp != nil {
			if g, ok := sp.Members[name].(*ssa.Global); ok {
				ref := x.e.globalRef(g)
				a := x.e.addrOfRef(ref, ob.Type())
				return tval{t: x.e.load(x.fr, x.st, a), typ: ob.Type()}
			}
		}
	}
	return x.errf("unknown %s.%s", p.Name(), name)
}

func (x *ExprEnv) selectField(b tval, name string) tval {
	e := x.e
	if _, isI := b.typ.Underlying().(*types.Interface); isI {
		return x.ifaceField(b, name)
	}
	obj, path, _ := types.LookupFieldOrMethod(b.typ, true, x.pkgFor(b.typ), name)
	if _, ok := obj.(*types.Var); !ok {
		return x.errf("no field %s in %s", name, b.typ)
	}
	cur := b
	for _, idx := range path {
		if pt, ok := cur.typ.Underlying().(*types.Pointer); ok {
			st, ok := pt.Elem().Underlying().(*types.Struct)
			if !ok {
				return x.errf("field of pointer to non-struct")
			}
			h := e.fieldHeap(pt.Elem(), st, idx)
			cur = tval{t: e.sel(e.view(x.st, h), h, Loc{cur.t}), typ: st.Field(idx).Type()}
			continue
		}
		st, ok := cur.typ.Underlying().(*types.Struct)
		if !ok {
			return x.errf("field of non-struct %s", cur.typ)
		}
		e.d.structSort(cur.typ, st)
		cur = tval{t: sel(cur.typ, st, idx, cur.t), typ: st.Field(idx).Type()}
	}
	return cur
}

func (x *ExprEnv) pkgFor(t types.Type) *types.Package {
	if p, ok := t.Underlying().(*types.Pointer); ok {
		t = p.Elem()
	}
	if n, ok := t.(*types.Named); ok && n.Obj().Pkg() != nil {
		return n.Obj().Pkg()
	}
	return x.pkg
}

func (x *ExprEnv) eqTerm(a, b tval) string {
	if a.isNil || b.isNil {
		o := a
		if a.isNil {
			o = b
		}
		switch x.e.d.sortOf(o.typ) {
		case "Slice":
			return "(= (sarr " + o.t + ") 0)"
		case "Iface":
			return "(= (itag " + o.t + ") 0)"
		}
		return "(= " + o.t + " 0)"
	}
	return "(= " + a.t + " " + b.t + ")"
}

func (x *ExprEnv) binary(n *ast.BinaryExpr) tval {
	a := x.tr(n.X)
	// short circuit on statically decided operands (typeis on a concrete receiver): the other operand
	// need not even be well formed for this receiver type
	if n.Op == token.LOR && a.t == "true" {
		return tval{t: "true", typ: types.Typ[types.Bool]}
	}
	if n.Op == token.LAND && a.t == "false" {
		return tval{t: "false", typ: types.Typ[types.Bool]}
	}
	b := x.tr(n.Y)
	bt := types.Typ[types.Bool]
	e := x.e
	srt := e.d.sortOf(a.typ)
	if a.isNil {
		srt = e.d.sortOf(b.typ)
	}
	switch n.Op {
	case token.LAND:
		return tval{t: "(and " + a.t + " " + b.t + ")", typ: bt}
	case token.LOR:
		return tval{t: "(or " + a.t + " " + b.t + ")", typ: bt}
	case token.EQL, token.NEQ:
		if !a.isNil && !b.isNil && a.typ != nil && b.typ != nil && a.typ != untypedInt && b.typ != untypedInt {
			if sa, sb := e.d.sortOf(a.typ), e.d.sortOf(b.typ); sa != sb {
				// e.g. argN of a call whose parameter list changed: the clause no longer binds
				return x.errf("comparison of %s with %s", a.typ, b.typ)
			}
		}
		if n.Op == token.NEQ {
			return tval{t: "(not " + x.eqTerm(a, b) + ")", typ: bt}
		}
		return tval{t: x.eqTerm(a, b), typ: bt}
	case token.LSS, token.LEQ, token.GTR, token.GEQ:
		if srt == "Str" {
			e.d.decl("strord", "(Str) Int")
			return tval{t: "(" + n.Op.String() + " (strord " + a.t + ") (strord " + b.t + "))", typ: bt}
		}
		return tval{t: "(" + n.Op.String() + " " + a.t + " " + b.t + ")", typ: bt}
	case token.ADD:
		if srt == "Str" {
			e.d.decl("strcat", "(Str Str) Str")
			return tval{t: "(strcat " + a.t + " " + b.t + ")", typ: a.typ}
		}
		return tval{t: "(+ " + a.t + " " + b.t + ")", typ: pickType(a, b)}
	case token.SUB:
		return tval{t: "(- " + a.t + " " + b.t + ")", typ: pickType(a, b)}
	case token.MUL:
		return tval{t: "(* " + a.t + " " + b.t + ")", typ: pickType(a, b)}
	case token.QUO:
		return tval{t: "(div " + a.t + " " + b.t + ")", typ: pickType(a, b)}
	case token.REM:
		return tval{t: "(mod " + a.t + " " + b.t + ")", typ: pickType(a, b)}
	}
	return x.errf("binary %s", n.Op)
}

func pickType(a, b tval) types.Type {
	if a.typ == untypedInt {
		return b.typ
	}
	return a.typ
}

func (x *ExprEnv) call(n *ast.CallExpr) tval {
	e := x.e
	bt := types.Typ[types.Bool]
	if id, ok := n.Fun.(*ast.Ident); ok {
		switch id.Name {
		case "len":
			a := x.tr(n.Args[0])
			switch u := a.typ.Underlying().(type) {
			case *types.Slice:
				return tval{t: "(slen " + a.t + ")", typ: types.Typ[types.Int]}
			case *types.Basic:
				return tval{t: "(strlen " + a.t + ")", typ: types.Typ[types.Int]}
			case *types.Map:
				_, _, l := e.mapHeaps(u)
				return tval{t: "(ite (= " + a.t + " 0) 0 " + e.sel(e.view(x.st, l), l, Loc{a.t}) + ")", typ: types.Typ[types.Int]}
			}
			return x.errf("len of %s", a.typ)
		case "cap":
			a := x.tr(n.Args[0])
			return tval{t: "(scap " + a.t + ")", typ: types.Typ[types.Int]}
		case "old":
			if x.old == nil {
				return x.errf("old() not available here")
			}
			o := x.withState(x.old)
			if x.oldVars != nil {
				// loop variables take their value at the loop head; variables that only exist inside the
				// body (the current element, ...) keep their current value
				m := map[string]tval{}
				for k, v := range x.vars {
					m[k] = v
				}
				for k, v := range x.oldVars {
					m[k] = v
				}
				o.vars = m
			}
			ne := len(x.errs)
			r := o.tr(n.Args[0])
			if len(o.errs) > ne {
				x.errs = append(x.errs, o.errs[ne:]...)
			}
			return r
		case "visited":
			if x.visited == nil {
				return x.errf("visited() only inside a map-range loop invariant")
			}
			k := x.tr(n.Args[0])
			return tval{t: x.visited(k.t), typ: bt}
		case "implies":
			ne0 := len(x.errs)
			mk0 := e.mark()
			a := x.tr(n.Args[0])
			if len(x.errs) > ne0 && strings.HasPrefix(x.errs[ne0], "unknown identifier") && !x.assuming {
				// the antecedent talks about a variable that does not exist on this path (a return outside
				// its scope): the clause says nothing here
				x.errs = x.errs[:ne0]
				e.rollback(mk0)
				return tval{t: "true", typ: bt}
			}
			ne := len(x.errs)
			mk := e.mark()
			b := x.tr(n.Args[1])
			if len(x.errs) > ne {
				e.rollback(mk)
				// a consequent that mentions a variable not yet declared at this program point cannot hold
				// here: the clause then demands that the antecedent is false at this point
				// (errors after an unknown identifier are its consequences: the placeholder has no fields)
				onlyUnknown := strings.HasPrefix(x.errs[ne], "unknown identifier")
				if onlyUnknown && x.fr != nil && x.fr.fn != nil && !varExistsInFunc(x.fr.fn, strings.TrimSpace(strings.TrimPrefix(x.errs[ne], "unknown identifier"))) {
					// not "out of scope here" but "no such variable anywhere in this function" (renamed or
					// removed by an edit): the clause does not bind at all
					onlyUnknown = false
				}
				if onlyUnknown {
					x.errs = x.errs[:ne]
					if x.assuming {
						// when the clause is only assumed (a callee's postcondition seen from a call site, where the
						// callee's locals do not exist) it says nothing
						return tval{t: "true", typ: bt}
					}
					b = tval{t: "false", typ: bt}
				}
			}
			return tval{t: "(=> " + a.t + " " + b.t + ")", typ: bt}
		case "iff":
			a, b := x.tr(n.Args[0]), x.tr(n.Args[1])
			return tval{t: "(= " + a.t + " " + b.t + ")", typ: bt}
		case "ite":
			c, a, b := x.tr(n.Args[0]), x.tr(n.Args[1]), x.tr(n.Args[2])
			return tval{t: "(ite " + c.t + " " + a.t + " " + b.t + ")", typ: pickType(a, b)}
		case "fresh":
			a := x.tr(n.Args[0])
			switch e.d.sortOf(a.typ) {
			case "Slice":
				return tval{t: fmt.Sprintf("(or (= (sarr %s) 0) (>= (sarr %s) %s))", a.t, a.t, x.a0), typ: bt}
			case "Int":
				return tval{t: "(>= " + a.t + " " + x.a0 + ")", typ: bt}
			}
			return x.errf("fresh of %s", a.typ)
		case "freshOrNil":
			a := x.tr(n.Args[0])
			switch e.d.sortOf(a.typ) {
			case "Slice":
				return tval{t: fmt.Sprintf("(or (= (sarr %s) 0) (>= (sarr %s) %s))", a.t, a.t, x.a0), typ: bt}
			case "Int":
				return tval{t: fmt.Sprintf("(or (= %s 0) (>= %s %s))", a.t, a.t, x.a0), typ: bt}
			}
			return x.errf("freshOrNil of %s", a.typ)
		case "pastloop":
			// pastloop(N): this return lies behind the head of loop N (the loop was reached on every path to it)
			if len(n.Args) != 1 || x.at == nil {
				return x.errf("pastloop(N) is only meaningful in ensures clauses")
			}
			lit, ok := n.Args[0].(*ast.BasicLit)
			if !ok {
				return x.errf("pastloop(N): N must be a literal")
			}
			var ord int
			fmt.Sscanf(lit.Value, "%d", &ord)
			for h, li := range x.fr.loops {
				if li.ord == ord {
					if h.Dominates(x.at) {
						return tval{t: "true", typ: bt}
					}
					return tval{t: "false", typ: bt}
				}
			}
			return x.errf("unknown identifier: loop %d does not exist", ord)
		case "endsWith":
			// endsWith(s, t): s is some string followed by t (strings are uninterpreted: this is decided by
			// matching the concatenation that built s, which is exactly what it is meant to pin down)
			if len(n.Args) != 2 {
				return x.errf("endsWith(s, t)")
			}
			a, b := x.tr(n.Args[0]), x.tr(n.Args[1])
			e.d.decl("strcat", "(Str Str) Str")
			p := e.fresh("q_pre")
			return tval{t: fmt.Sprintf("(exists ((%s Str)) (! (= %s (strcat %s %s)) :pattern ((strcat %s %s))))", p, a.t, p, b.t, p, b.t), typ: bt}
		case "haskey":
			m, k := x.tr(n.Args[0]), x.tr(n.Args[1])
			u, ok := m.typ.Underlying().(*types.Map)
			if !ok {
				return x.errf("haskey of non-map")
			}
			d, _, _ := e.mapHeaps(u)
			return tval{t: "(and (not (= " + m.t + " 0)) " + e.sel(e.view(x.st, d), d, Loc{m.t, k.t}) + ")", typ: bt}
		case "forallkey":
			// forallkey(k, m, body): for every key k of map m
			v, ok := n.Args[0].(*ast.Ident)
			if !ok || len(n.Args) != 3 {
				return x.errf("forallkey(k, m, body)")
			}
			m := x.tr(n.Args[1])
			mu, ok := m.typ.Underlying().(*types.Map)
			if !ok {
				return x.errf("forallkey over non-map %s", m.typ)
			}
			qn := e.fresh("q_" + v.Name)
			saved, had := x.vars[v.Name]
			x.vars[v.Name] = tval{t: qn, typ: mu.Key()}
			e.quant++
			d, _, _ := e.mapHeaps(mu)
			dom := "(and (not (= " + m.t + " 0)) " + e.sel(e.view(x.st, d), d, Loc{m.t, qn}) + ")"
			body := x.tr(n.Args[2])
			e.quant--
			if had {
				x.vars[v.Name] = saved
			} else {
				delete(x.vars, v.Name)
			}
			return tval{t: fmt.Sprintf("(forall ((%s %s)) (=> %s %s))", qn, e.d.sortOf(mu.Key()), dom, body.t), typ: bt}
		case "quoted":
			// quoted(s): the Go-quoted rendering of s (what %q prints)
			a := x.tr(n.Args[0])
			e.d.decl("strquote", "(Str) Str")
			return tval{t: "(strquote " + a.t + ")", typ: a.typ}
		case "samearray":
			a, b := x.tr(n.Args[0]), x.tr(n.Args[1])
			return tval{t: "(and (not (= (sarr " + a.t + ") 0)) (= (sarr " + a.t + ") (sarr " + b.t + ")))", typ: bt}
		case "sametype":
			a, b := x.tr(n.Args[0]), x.tr(n.Args[1])
			return tval{t: "(= (itag " + a.t + ") (itag " + b.t + "))", typ: bt}
		case "as":
			// as(x, "pkg.Type"): the value of dynamic type pkg.Type held by interface x
			a := x.tr(n.Args[0])
			lit, ok := n.Args[1].(*ast.BasicLit)
			if !ok {
				return x.errf("as(x, \"type\")")
			}
			sname, _ := strconv.Unquote(lit.Value)
			t, err := e.spec.parseType(sname)
			if err != nil {
				return x.errf("%v", err)
			}
			return tval{t: e.unbox(t, "(ival "+a.t+")"), typ: t}
		case "forall", "exists":
			// forall(i, lo, hi, body)
			v, ok := n.Args[0].(*ast.Ident)
			if !ok || len(n.Args) != 4 {
				return x.errf("forall(i, lo, hi, body)")
			}
			lo, hi := x.tr(n.Args[1]), x.tr(n.Args[2])
			qn := e.fresh("q_" + v.Name)
			saved, had := x.vars[v.Name]
			x.vars[v.Name] = tval{t: qn, typ: types.Typ[types.Int]}
			e.quant++
			body := x.tr(n.Args[3])
			e.quant--
			if had {
				x.vars[v.Name] = saved
			} else {
				delete(x.vars, v.Name)
			}
			rng := fmt.Sprintf("(and (<= %s %s) (< %s %s))", lo.t, qn, qn, hi.t)
			if id.Name == "forall" {
				return tval{t: fmt.Sprintf("(forall ((%s Int)) (=> %s %s))", qn, rng, body.t), typ: bt}
			}
			return tval{t: fmt.Sprintf("(exists ((%s Int)) (and %s %s))", qn, rng, body.t), typ: bt}
		case "string":
			a := x.tr(n.Args[0])
			if e.d.sortOf(a.typ) == "Slice" {
				told, gate := e.heapTokensH(x.st, []string{a.t}, []types.Type{a.typ}, []string{e.elemHeap(a.typ.Underlying().(*types.Slice).Elem())})
				e.d.decl("bytes2str", "(Slice Int Int) Str")
				return tval{t: "(bytes2str " + a.t + " " + told + " " + gate + ")", typ: types.Typ[types.String]}
			}
			return tval{t: a.t, typ: types.Typ[types.String]}
		case "int", "uint", "int64", "uint64", "uint32", "int32":
			a := x.tr(n.Args[0])
			return tval{t: a.t, typ: types.Universe.Lookup(id.Name).Type()}
		case "typeis":
			// typeis(x, "pkg.Type") – dynamic type test on an interface value
			a := x.tr(n.Args[0])
			lit, ok := n.Args[1].(*ast.BasicLit)
			if !ok {
				return x.errf("typeis(x, \"type\")")
			}
			s, _ := strconv.Unquote(lit.Value)
			t, err := e.spec.parseType(s)
			if err != nil {
				return x.errf("%v", err)
			}
			if _, isI := a.typ.Underlying().(*types.Interface); !isI {
				// a value of static (concrete) type: decided by the types
				if types.Identical(a.typ, t) {
					return tval{t: "true", typ: bt}
				}
				return tval{t: "false", typ: bt}
			}
			return tval{t: fmt.Sprintf("(= (itag %s) %d)", a.t, e.d.tag(t)), typ: bt}
		}
		if sf, ok := e.spec.specFns[id.Name]; ok {
			return x.specCall(sf, n.Args)
		}
		if x.pkg != nil {
			if o, ok := x.pkg.Scope().Lookup(id.Name).(*types.Func); ok {
				return x.funcCall(e.w.prog.FuncValue(o), nil, n.Args)
			}
		}
		return x.errf("unknown function %s", id.Name)
	}
	if se, ok := n.Fun.(*ast.SelectorExpr); ok {
		b := x.tr(se.X)
		if b.pkg != nil {
			if o, ok := b.pkg.Scope().Lookup(se.Sel.Name).(*types.Func); ok {
				return x.funcCall(e.w.prog.FuncValue(o), nil, n.Args)
			}
			return x.errf("unknown function %s.%s", b.pkg.Name(), se.Sel.Name)
		}
		obj, _, _ := types.LookupFieldOrMethod(b.typ, true, x.pkgFor(b.typ), se.Sel.Name)
		if fo, ok := obj.(*types.Func); ok {
			if _, isIface := b.typ.Underlying().(*types.Interface); isIface {
				// interface method: same uninterpreted function as in code
				var args []string
				var ats []types.Type
				args = append(args, b.t)
				ats = append(ats, b.typ)
				for _, a := range n.Args {
					v := x.tr(a)
					args = append(args, v.t)
					ats = append(ats, v.typ)
				}
				sig := fo.Type().(*types.Signature)
				if sig.Results().Len() != 1 {
					return x.errf("interface method with %d results", sig.Results().Len())
				}
				rt := sig.Results().At(0).Type()
				name := "IM_" + astIfaceKey(b.typ) + "_" + fo.Name() + "_0"
				if nt, ok := b.typ.(*types.Named); ok && nt.Obj().Pkg() != nil && e.w.mine[nt.Obj().Pkg()] && !e.w.pureIfaceMethod(b.typ, fo) && e.w.readerIfaceMethod(b.typ, fo) {
					name = "IMR_" + typeKey(b.typ) + "_" + fo.Name() + "_0"
					told, gate := e.heapTokensH(x.st, args, ats, e.readHeapsIface(b.typ, fo))
					args = append(args, told, gate)
					ats = append(ats, types.Typ[types.Int], types.Typ[types.Int])
				}
				var sorts []string
				for _, t := range ats {
					sorts = append(sorts, e.d.sortOf(t))
				}
				e.d.decl(name, "("+strings.Join(sorts, " ")+") "+e.d.sortOf(rt))
				return tval{t: "(" + name + " " + strings.Join(args, " ") + ")", typ: rt}
			}
			fn := e.w.prog.FuncValue(fo)
			if fn == nil {
				return x.errf("no function for method %s", fo.FullName())
			}
			return x.funcCall(fn, &b, n.Args)
		}
		return x.errf("unknown method %s on %s", se.Sel.Name, b.typ)
	}
	return x.errf("unsupported call")
}

func (x *ExprEnv) specCall(sf *SpecFn, argx []ast.Expr) tval {
	e := x.e
	if len(argx) != len(sf.Params) {
		return x.errf("spec %s: %d args", sf.Name, len(argx))
	}
	var args, sorts []string
	var vals []tval
	for i, a := range argx {
		v := x.tr(a)
		if v.isNil {
			v.t = e.d.zero(sf.Params[i])
		}
		vals = append(vals, v)
		args = append(args, v.t)
		sorts = append(sorts, e.d.sortOf(sf.Params[i]))
	}
	if sf.Def != "" {
		// macro: evaluate the body with parameters bound
		saved := map[string]*tval{}
		for i, p := range sf.PNames {
			if old, ok := x.vars[p]; ok {
				o := old
				saved[p] = &o
			} else {
				saved[p] = nil
			}
			x.vars[p] = tval{t: args[i], typ: sf.Params[i]}
		}
		ex, err := parser.ParseExpr(sf.Def)
		var r tval
		if err != nil {
			r = x.errf("spec %s body: %v", sf.Name, err)
		} else {
			r = x.tr(ex)
			r.typ = sf.Res
		}
		for p, o := range saved {
			if o == nil {
				delete(x.vars, p)
			} else {
				x.vars[p] = *o
			}
		}
		return r
	}
	name := "SP_" + sf.Name
	e.d.decl(name, "("+strings.Join(sorts, " ")+") "+e.d.sortOf(sf.Res))
	if len(args) == 0 {
		return tval{t: name, typ: sf.Res}
	}
	return tval{t: "(" + name + " " + strings.Join(args, " ") + ")", typ: sf.Res}
}

// funcCall: a (pure) function of the program used inside a contract expression.
func (x *ExprEnv) funcCall(fn *ssa.Function, recv *tval, argx []ast.Expr) tval {
	e := x.e
	if fn == nil {
		return x.errf("unknown function")
	}
	var args []string
	var ats []types.Type
	if recv != nil {
		r := *recv
		// pointer receiver on an addressable value is not supported; value receiver through pointer: load
		if fn.Signature.Recv() != nil {
			_, wantPtr := fn.Signature.Recv().Type().Underlying().(*types.Pointer)
			pt, havePtr := r.typ.Underlying().(*types.Pointer)
			if !wantPtr && havePtr {
				a := e.addrOfRef(r.t, pt.Elem())
				r = tval{t: e.load(x.fr, x.st, a), typ: pt.Elem()}
			} else if wantPtr && !havePtr {
				return x.errf("method %s needs an addressable receiver", fn.Name())
			}
		}
		args = append(args, r.t)
		ats = append(ats, r.typ)
	}
	for _, a := range argx {
		v := x.tr(a)
		args = append(args, v.t)
		ats = append(ats, v.typ)
	}
	if len(args) != len(fn.Params) {
		return x.errf("call of %s: %d args, want %d", fn.Name(), len(args), len(fn.Params))
	}
	for i := range args {
		if ats[i] == types.Typ[types.UntypedNil] {
			args[i] = e.d.zero(fn.Params[i].Type())
		}
	}
	res := fn.Signature.Results()
	if res.Len() != 1 {
		return x.errf("call of %s: %d results", fn.Name(), res.Len())
	}
	rt := res.At(0).Type()
	if e.readerUF(fn) {
		name := e.readerName(fn, x.st) + "_0"
		var sorts []string
		var pts []types.Type
		for _, p := range fn.Params {
			sorts = append(sorts, e.d.sortOf(p.Type()))
			pts = append(pts, p.Type())
		}
		told, gate := e.heapTokensH(x.st, args, pts, e.readHeaps(fn))
		sorts = append(sorts, "Int", "Int")
		e.d.decl(name, "("+strings.Join(sorts, " ")+") "+e.d.sortOf(rt))
		return tval{t: "(" + name + " " + strings.Join(args, " ") + " " + told + " " + gate + ")", typ: rt}
	}
	if e.quant == 0 && e.willInline(fn, 1) && e.spec.contractFor(fn) == nil {
		saveCur := e.cur
		rs, _ := e.inlineFn(x.fr, x.st, fn, args, nil, nil, false)
		e.cur = saveCur
		if len(rs) == 1 {
			return tval{t: rs[0], typ: rt}
		}
		return x.errf("inline of %s failed", fn.Name())
	}
	// uninterpreted (same symbol the code encoding uses for pure dependency calls)
	name := "X_" + san(shortName(fn)) + "_0"
	var sorts []string
	for _, p := range fn.Params {
		sorts = append(sorts, e.d.sortOf(p.Type()))
	}
	e.d.decl(name, "("+strings.Join(sorts, " ")+") "+e.d.sortOf(rt))
	if len(args) == 0 {
		return tval{t: name, typ: rt}
	}
	return tval{t: "(" + name + " " + strings.Join(args, " ") + ")", typ: rt}
}

// ifaceField: x.f where x is a value of an hcl-lang interface type all of whose implementations that
// have a field f agree on its type: an uninterpreted function of the interface value, tied to the real
// field at every conversion of a concrete value to the interface (see finish).
func (x *ExprEnv) ifaceField(b tval, name string) tval {
	e := x.e
	iface, _ := b.typ.Underlying().(*types.Interface)
	var ft types.Type
	for _, T := range e.w.prog.RuntimeTypes() {
		if _, isI := T.Underlying().(*types.Interface); isI {
			continue
		}
		if !types.Implements(T, iface) {
			continue
		}
		st, ok := T.Underlying().(*types.Struct)
		if !ok {
			continue
		}
		for i := 0; i < st.NumFields(); i++ {
			if st.Field(i).Name() == name {
				if ft == nil {
					ft = st.Field(i).Type()
				} else if !types.Identical(ft, st.Field(i).Type()) {
					return x.errf("field %s has different types among implementations of %s", name, b.typ)
				}
			}
		}
	}
	if ft == nil {
		return x.errf("no implementation of %s has a field %s", b.typ, name)
	}
	uf := "IF_" + typeKey(b.typ) + "_" + name
	e.d.decl(uf, "(Iface) "+e.d.sortOf(ft))
	if e.ifaceFieldUFs == nil {
		e.ifaceFieldUFs = map[string]ifaceFieldUF{}
	}
	e.ifaceFieldUFs[uf] = ifaceFieldUF{b.typ, name, uf}
	return tval{t: "(" + uf + " " + b.t + ")", typ: ft}
}

// varExistsInFunc: some variable of f (parameter, result, local, captured) is called name.
func varExistsInFunc(f *ssa.Function, name string) bool {
	if i := strings.IndexAny(name, " :("); i > 0 {
		name = name[:i]
	}
	for fn := f; fn != nil; fn = fn.Parent() {
		for _, p := range fn.Params {
			if p.Name() == name {
				return true
			}
		}
		for _, fv := range fn.FreeVars {
			if fv.Name() == name {
				return true
			}
		}
		if fn.Signature != nil {
			rs := fn.Signature.Results()
			for i := 0; i < rs.Len(); i++ {
				if rs.At(i).Name() == name {
					return true
				}
			}
		}
		for _, b := range fn.Blocks {
			for _, in := range b.Instrs {
				switch d := in.(type) {
				case *ssa.DebugRef:
					if d.Object() != nil && d.Object().Name() == name {
						return true
					}
				case *ssa.Alloc:
					if d.Comment == name {
						return true
					}
				case *ssa.Phi:
					if d.Comment == name {
						return true
					}
				}
			}
		}
	}
	return false
}
