package main

func checkCmd(args []string) int { return 2 }
