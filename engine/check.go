package main

import (
	"go/token"
	"encoding/json"
	"flag"
	"fmt"
	"go/ast"
	"go/parser"
	"go/types"
	"os"
	"path/filepath"
	"regexp"
	"sort"
	"strconv"
	"strings"
	"time"

	"golang.org/x/tools/go/ssa"
)

// ---- which obligations decide which property ------------------------------------------------

func obProps(o *Oblig) []string {
	switch o.Family {
	case "SAFE", "TERM":
		if strings.HasSuffix(o.Fn, ").Copy") && (strings.Contains(o.Fn, "schema.") || strings.Contains(o.Fn, "lang.")) {
			// a Copy that panics does not yield a copy
			return append([]string{"C01", "C17"}, o.tags...)
		}
		return append([]string{"C01"}, o.tags...)
	case "FRAME":
		// no write to pre-existing memory: nothing is carried from one query to the next (C03), nothing
		// the caller supplied changes (C04), concurrent queries only read shared state (C05)
		if strings.Contains(o.Fn, "schemahelper.") {
			// dependent-body selection is a function of the block and the schema only if selecting does not
			// rewrite the schema it selects from (C16: same keys, same schema, whatever was asked before)
			return []string{"C03", "C04", "C05", "C16"}
		}
		return []string{"C03", "C04", "C05"}
	case "COPY":
		// the freshness that FRAME proofs of callers assume from Copy() is established here
		return []string{"C17", "C03", "C04", "C05"}
	case "NONDET":
		return append([]string{"C03"}, o.tags...)
	case "PRE", "LOOP":
		// preconditions and invariants without a property tag exist for panic freedom
		if len(o.tags) == 0 && o.houdini == 0 {
			return []string{"C01"}
		}
		return o.tags
	case "POST", "INV", "LEMMA":
		return o.tags
	}
	return nil
}

func hasProp(o *Oblig, p string) bool {
	for _, x := range obProps(o) {
		if x == p {
			return true
		}
	}
	return false
}

type Baseline struct {
	Property     string         `json:"property"`
	Commit       string         `json:"repo_commit"`
	Claimed      []string       `json:"claimed"`  // obligations that discharge on the pinned tree
	Unproved     []string       `json:"unproved"` // obligations that do not (limits of the contracts, or known findings)
	Functions    []string       `json:"functions"`
	BindErrors   []string       `json:"bind_errors,omitempty"`   // contract clauses that do not bind on the pinned tree (none expected)
	LoopShape    map[string]int `json:"loop_shape,omitempty"`    // functions whose contract has loop clauses -> number of loops
	AllFunctions []string       `json:"all_functions,omitempty"` // every function of the hcl-lang packages on the pinned tree
	BoolGhosts   []string       `json:"bool_ghosts,omitempty"`   // "<function>|<ghost>": ghosts of Boolean sort on the pinned tree
}

type Finding struct {
	Property    string   `json:"property"`
	ID          string   `json:"id"`
	Obligations []string `json:"obligations"`
	What        string   `json:"what"`
	Input       string   `json:"input"`
}

type KnownFindings struct {
	Findings []Finding `json:"findings"`
	Fixed    []struct {
		Property string `json:"property"`
		Commit   string `json:"commit"`
		What     string `json:"what"`
	} `json:"fixed"`
}

type obRec struct {
	Name     string `json:"name"`
	Verdict  string `json:"verdict"`
	Solver   string `json:"solver"`
	Ms       int    `json:"ms"`
	SmtBytes int    `json:"smt_bytes,omitempty"`
}

func readJSON(path string, v interface{}) error {
	b, err := os.ReadFile(path)
	if err != nil {
		return err
	}
	return json.Unmarshal(b, v)
}

func verifRoot() string {
	if r := os.Getenv("VERIF_ROOT"); r != "" {
		return r
	}
	return "/verif"
}

func checkCmd(args []string) int {
	fs := flag.NewFlagSet("check", flag.ExitOnError)
	prop := fs.String("p", "", "property id")
	tier := fs.String("tier", "quick", "quick|thorough")
	repo := fs.String("repo", "/repo", "")
	writeBase := fs.Bool("write-baseline", false, "record the claimed set from this run (pinned tree only)")
	noEvidence := fs.Bool("no-evidence", false, "")
	noReplay := fs.Bool("no-replay", false, "do not run replays on the real code")
	evidenceOut := fs.String("evidence", "", "evidence path (default /verif/evidence/<id>.json)")
	fs.Parse(args)
	if *prop == "" {
		fmt.Fprintln(os.Stderr, "check: -p required")
		return 2
	}
	root := verifRoot()
	seed, _ := strconv.Atoi(os.Getenv("VERIF_SEED"))
	if t := os.Getenv("VERIF_TIER"); t == "quick" || t == "thorough" {
		*tier = t
	}
	t0 := time.Now()
	w, err := loadWorld(*repo)
	if err != nil {
		// the tree does not build: nothing can be decided (never a violation)
		fmt.Printf("UNDECIDED property=%s reason=load-failed %v\n", *prop, err)
		writeEvidenceFailure(root, *prop, *tier, seed, err.Error(), time.Since(t0).Seconds(), *evidenceOut)
		return 0
	}
	spec := loadSpecs(w, filepath.Join(root, "trusted"))
	{
		// ghosts that are Boolean on the pinned tree ("the check call returned true"): if their call site
		// disappears they are false, like the plain "was this call reached" ghosts
		var b0 Baseline
		if readJSON(filepath.Join(root, "baseline", *prop+".json"), &b0) == nil {
			spec.boolGhosts = map[string]bool{}
			for _, g := range b0.BoolGhosts {
				spec.boolGhosts[g] = true
			}
		}
	}
	opt := solveOpts{quickMs: 6000, retryMs: 10000, portfolio: true}
	if *tier == "thorough" {
		opt = solveOpts{quickMs: 20000, retryMs: 60000, portfolio: true, crossCheck: true}
	}
	if *writeBase {
		// the claimed set is recorded under a fifth of the quick time limits: only obligations that discharge
		// with that much margin are claimed, so that a loaded machine does not turn a proof into an alarm
		opt = solveOpts{quickMs: 1200, retryMs: 2000, portfolio: true}
	}
	if !*writeBase && *tier != "thorough" {
		// obligations that were not discharged on the pinned tree are not claimed: one solver attempt
		// (they may be discharged now - see "rescued" - but they are not worth the portfolio)
		var b0 Baseline
		if readJSON(filepath.Join(root, "baseline", *prop+".json"), &b0) == nil {
			opt.knownUnproved = map[string]bool{}
			for _, n := range b0.Unproved {
				opt.knownUnproved[n] = true
			}
		}
	}
	if !*writeBase && *tier != "thorough" {
		opt.prop = *prop
	}
	fns := relevantFuncs(w, spec, *prop)
	anchorFns := anchorFunctions(w, root, *prop)
	{
		have := map[*ssa.Function]bool{}
		for _, f := range fns {
			have[f] = true
		}
		for _, f := range w.funcs {
			if anchorFns[shortName(f)] && !have[f] {
				fns = append(fns, f)
			}
		}
	}
	frameFns := frameDeps(w, spec, *prop, anchorFns)
	{
		have := map[*ssa.Function]bool{}
		for _, f := range fns {
			have[f] = true
		}
		for _, f := range w.funcs {
			if frameFns[shortName(f)] && !have[f] {
				fns = append(fns, f)
			}
		}
	}
	copyFns := copyDeps(w, spec, *prop, anchorFns)
	{
		have := map[*ssa.Function]bool{}
		for _, f := range fns {
			have[f] = true
		}
		for _, f := range w.funcs {
			if copyFns[shortName(f)] && !have[f] {
				fns = append(fns, f)
			}
		}
	}
	if !*writeBase && *tier != "thorough" {
		pr := *prop
		opt.relevant = func(o *Oblig) bool {
			if hasProp(o, pr) {
				return true
			}
			if (o.Family == "SAFE" || o.Family == "FRAME" || o.Family == "COPY" || (o.Family == "PRE" && len(o.tags) == 0)) && anchorFns[o.Fn] {
				return true
			}
			return (o.Family == "COPY" && copyFns[o.Fn]) || (o.Family == "FRAME" && frameFns[o.Fn])
		}
	}
	res := verifyAll(w, spec, fns, opt, 16, nil)
	extra := extraObligations(w, spec, *prop, opt)
	run := &checkRun{prop: *prop, tier: *tier, seed: seed, root: root, w: w, spec: spec, res: res, extra: extra, t0: t0, noReplay: *noReplay, anchorFns: anchorFns, copyFns: copyFns, frameFns: frameFns}
	if *writeBase {
		return run.writeBaseline()
	}
	return run.decide(*noEvidence, *evidenceOut)
}

type checkRun struct {
	prop, tier, root string
	seed             int
	w                *World
	spec             *Specs
	res              []*funcResult
	extra            []*extraResult
	t0               time.Time
	noReplay         bool
	anchorFns        map[string]bool
	copyFns          map[string]bool
	frameFns         map[string]bool
	canary           []canaryResult
	harness          []harnessResult
}

// extraResult: obligations that do not come from one function's body (COPY field tables, NONDET sites, lemmas).
type extraResult struct {
	obs   []*Oblig
	enc   *Enc
	notes []string
}

func (r *checkRun) collect() (obs []*Oblig, encOf map[*Oblig]*Enc, fnSeen map[string]bool) {
	encOf = map[*Oblig]*Enc{}
	fnSeen = map[string]bool{}
	for _, fr := range r.res {
		fnSeen[shortName(fr.fn)] = true
		if fr.enc == nil || fr.panicked != "" {
			continue
		}
		for _, o := range fr.enc.obs {
			if o.Name == "" {
				continue
			}
			// a query that panics gives no result, and one that writes into memory it does not own (a slice
			// appended to in place, a shared schema) corrupts what it or a later query returns: the SAFE and
			// FRAME obligations of the functions defined in the files a property is anchored in are part of
			// that property's check
			anchored := (o.Family == "SAFE" || o.Family == "FRAME" || o.Family == "COPY" || (o.Family == "PRE" && len(o.tags) == 0)) && r.anchorFns[o.Fn]
			// the functions a property is anchored in, and those under a contract tagged with it, are verified
			// against the contracts of the Copy methods they call (a copy that equals its original and shares
			// nothing mutable with it): establishing those contracts is part of the property's proof
			if o.Family == "COPY" && r.copyFns[o.Fn] {
				anchored = true
			}
			// callers are verified under the default frame of their callees ("a call writes nothing that
			// existed before it"): the FRAME obligations of every hcl-lang function the property's functions
			// call, directly or indirectly, are what that assumption rests on
			if o.Family == "FRAME" && r.frameFns[o.Fn] {
				anchored = true
			}
			if !hasProp(o, r.prop) && !anchored {
				continue
			}
			obs = append(obs, o)
			encOf[o] = fr.enc
		}
	}
	for _, x := range r.extra {
		for _, o := range x.obs {
			if hasProp(o, r.prop) {
				obs = append(obs, o)
				encOf[o] = x.enc
			}
		}
	}
	return
}

func repoCommit(repo string) string {
	b, err := os.ReadFile(filepath.Join(repo, ".git", "HEAD"))
	if err != nil {
		return ""
	}
	s := strings.TrimSpace(string(b))
	if strings.HasPrefix(s, "ref: ") {
		if c, err := os.ReadFile(filepath.Join(repo, ".git", strings.TrimPrefix(s, "ref: "))); err == nil {
			return strings.TrimSpace(string(c))
		}
	}
	return s
}

func (r *checkRun) writeBaseline() int {
	obs, _, fnSeen := r.collect()
	b := Baseline{Property: r.prop, Commit: repoCommit(r.w.repo)}
	for _, o := range obs {
		if o.Verdict == "unsat" {
			b.Claimed = append(b.Claimed, o.Name)
		} else if o.Verdict != "dropped" {
			b.Unproved = append(b.Unproved, o.Name)
		}
	}
	for f := range fnSeen {
		b.Functions = append(b.Functions, f)
	}
	b.BindErrors = r.bindErrors()
	b.LoopShape = r.loopShape()
	for _, f := range r.w.funcs {
		b.AllFunctions = append(b.AllFunctions, shortName(f))
	}
	sort.Strings(b.AllFunctions)
	for _, fr := range r.res {
		if fr.enc == nil {
			continue
		}
		for name, t := range fr.enc.ghostType {
			if t != nil && fr.enc.d.sortOf(t) == "Bool" {
				b.BoolGhosts = append(b.BoolGhosts, shortName(fr.fn)+"|"+name)
			}
		}
	}
	sort.Strings(b.BoolGhosts)
	sort.Strings(b.Claimed)
	sort.Strings(b.Unproved)
	sort.Strings(b.Functions)
	os.MkdirAll(filepath.Join(r.root, "baseline"), 0o755)
	out, _ := json.MarshalIndent(b, "", " ")
	if err := os.WriteFile(filepath.Join(r.root, "baseline", r.prop+".json"), out, 0o644); err != nil {
		fmt.Fprintln(os.Stderr, err)
		return 2
	}
	fmt.Printf("baseline %s: claimed=%d unproved=%d\n", r.prop, len(b.Claimed), len(b.Unproved))
	return 0
}

// fnOfName: "<fn>#FAMILY:..." -> fn
func fnOfName(n string) string {
	if i := strings.Index(n, "#"); i >= 0 {
		return n[:i]
	}
	return n
}

// famKind: "<fn>#FAMILY:kind:text#k" -> "FAMILY:kind"
func famKind(n string) string {
	i := strings.Index(n, "#")
	if i < 0 {
		return ""
	}
	rest := n[i+1:]
	p := strings.SplitN(rest, ":", 3)
	if len(p) >= 2 {
		if p[1] == "inl" && len(p) == 3 {
			q := strings.SplitN(p[2], ":", 2)
			return p[0] + ":inl:" + q[0]
		}
		return p[0] + ":" + p[1]
	}
	return rest
}

type violation struct {
	ob        *Oblig
	reason    string
	model     string
	replay    string
	confirmed bool
	spurious  bool
	test      *replayTest
}

func (r *checkRun) decide(noEvidence bool, evidenceOut string) int {
	obs, encOf, fnSeen := r.collect()
	var base Baseline
	haveBase := readJSON(filepath.Join(r.root, "baseline", r.prop+".json"), &base) == nil
	var kf KnownFindings
	readJSON(filepath.Join(r.root, "KNOWN_FINDINGS.json"), &kf)
	known := map[string]*Finding{}
	for i := range kf.Findings {
		f := &kf.Findings[i]
		if f.Property != r.prop {
			continue
		}
		for _, o := range f.Obligations {
			known[o] = f
		}
	}
	claimed := map[string]bool{}
	for _, n := range base.Claimed {
		claimed[n] = true
	}
	unprovedBase := map[string]bool{}
	for _, n := range base.Unproved {
		unprovedBase[n] = true
	}
	baseFns := map[string]bool{}
	for _, f := range base.Functions {
		baseFns[f] = true
	}
	cur := map[string]*Oblig{}
	for _, o := range obs {
		cur[o.Name] = o
	}
	// a claimed obligation that comes back undecided (a time-out, typically on a loaded machine) is put to the
	// solvers once more, alone and with a generous limit, before anything is concluded from it
	{
		byEnc := map[*Enc][]*Oblig{}
		for _, n := range base.Claimed {
			if o, ok := cur[n]; ok && (o.Verdict == "unknown" || o.Verdict == "timeout" || o.Verdict == "") && encOf[o] != nil {
				byEnc[encOf[o]] = append(byEnc[encOf[o]], o)
			}
		}
		for enc, os := range byEnc {
			for _, cfg := range solvers {
				var again []*Oblig
				for _, o := range os {
					if o.Verdict != "unsat" && o.Verdict != "sat" {
						again = append(again, o)
					}
				}
				if len(again) == 0 {
					break
				}
				enc.runBatchC(cfg, again, enc.flagsOff, 45000, 1)
			}
		}
	}
	var viol []violation
	var undecided []string
	discharged, nclaimedPresent := 0, 0
	byBackend := map[string]int{}
	solverMs := 0
	// 0. groups (function, obligation kind) whose set of obligation names differs from the baseline: the
	// function was edited there. Names carry an ordinal for repeated source text ("x.f#3"), so inside an
	// edited group a surviving name may denote a different site; such groups are compared by count only.
	edited := map[string]bool{}
	ambiguous := map[string]bool{}
	{
		baseNames := map[string]bool{}
		for _, n := range base.Claimed {
			baseNames[n] = true
			if _, ok := cur[n]; !ok {
				edited[fnOfName(n)+"|"+famKind(n)] = true
			}
		}
		for _, n := range base.Unproved {
			baseNames[n] = true
			if _, ok := cur[n]; !ok {
				edited[fnOfName(n)+"|"+famKind(n)] = true
			}
		}
		if haveBase {
			for _, o := range obs {
				if !baseNames[o.Name] {
					edited[o.Fn+"|"+famKind(o.Name)] = true
				}
			}
		}
		// a name is ambiguous when its source text occurs more than once in the function (it carries an
		// ordinal that an edit can shift); unique names keep their identity even in an edited group
		note := func(n string) {
			if i := strings.LastIndex(n, "#"); i > 0 && n[i+1:] != "1" && !strings.Contains(n[i+1:], "@") {
				ambiguous[n[:i]] = true
			} else if strings.Contains(n[i+1:], "@") {
				ambiguous[n[:i]] = true
			}
		}
		for n := range baseNames {
			note(n)
		}
		for _, o := range obs {
			note(o.Name)
		}
	}
	isAmbiguous := func(n string) bool {
		if i := strings.LastIndex(n, "#"); i > 0 {
			return ambiguous[n[:i]]
		}
		return false
	}
	editedName := func(n string) bool { return edited[fnOfName(n)+"|"+famKind(n)] && isAmbiguous(n) }
	// 1. claimed obligations
	poisoned := map[string]bool{}        // functions whose assumed invariants do not hold any more
	missingByFn := map[string][]string{} // fn+famkind -> claimed names that disappeared
	for _, n := range base.Claimed {
		o, ok := cur[n]
		if ok && editedName(n) {
			missingByFn[fnOfName(n)+"|"+famKind(n)] = append(missingByFn[fnOfName(n)+"|"+famKind(n)], n)
			continue
		}
		if !ok {
			fn := fnOfName(n)
			if !fnSeen[fn] && baseFns[fn] {
				undecided = append(undecided, "function gone: "+n)
			} else {
				missingByFn[fn+"|"+famKind(n)] = append(missingByFn[fn+"|"+famKind(n)], n)
			}
			continue
		}
		nclaimedPresent++
		solverMs += o.Ms
		if o.Verdict == "unsat" {
			discharged++
			byBackend[o.Solver]++
			continue
		}
		if o.Verdict == "error" {
			// the solver rejected the script: a defect of the generator, never a statement about the code
			undecided = append(undecided, "tool error on a claimed obligation (nothing decided): "+o.Name+": "+firstLines(o.Output, 2))
			continue
		}
		if o.Verdict == "vacuous" {
			// its program point is unreachable under the assumptions: an assumed invariant is false for the
			// edited code (see the LOOP obligation of the same function); nothing is decided here
			undecided = append(undecided, "claimed obligation is now vacuous (its program point is unreachable in the edited code or under the assumed invariants): "+o.Name)
			continue
		}
		if o.Family == "LOOP" && !hasTag(o, "claim") {
			// an auxiliary invariant (a proof artefact, not a statement of the property) does not hold for the
			// edited loop: the proof of this function is broken, nothing is decided for it
			undecided = append(undecided, "auxiliary loop invariant no longer holds (proof broken, nothing decided for this function): "+o.Name+" ("+o.Verdict+")")
			poisoned[o.Fn] = true
			continue
		}
		if r.accumulatorGone(o) {
			// a per-iteration clause about an accumulator (`len(x) == old(len(x)) + 1 ...`) whose loop no longer
			// assigns x at all: the edited loop collects its results differently (a preallocated slice filled
			// by index, a local assigned to the field afterwards), so the clause does not describe this loop
			undecided = append(undecided, "per-iteration clause about a variable the edited loop no longer assigns (the loop accumulates differently; nothing decided for this clause): "+o.Name+" ("+o.Verdict+")")
			continue
		}
		viol = append(viol, violation{ob: o, reason: "claimed obligation no longer discharges (" + o.Verdict + ")"})
	}
	// 2. obligations that are new with respect to the baseline. Obligation names contain source text, so
	// an edit (even a rename of a local) makes the obligations of the edited statements disappear and
	// reappear under new names. Per function and obligation kind the successors are matched by count:
	// claimed obligations that disappeared need as many proved successors, unproved ones that disappeared
	// absorb as many failing successors. Only a claimed obligation left without a proved successor while
	// an unabsorbed successor fails is "an obligation that passed on the pinned tree and fails now".
	newFail := 0
	missingUnprovedByFn := map[string]int{}
	for _, n := range base.Unproved {
		if _, ok := cur[n]; !ok || editedName(n) {
			missingUnprovedByFn[fnOfName(n)+"|"+famKind(n)]++
		}
	}
	newProvedByFn := map[string]int{}
	newFailByFn := map[string][]*Oblig{}
	// an obligation that was unproved on the pinned tree and is discharged now: the unproved fact it stood
	// for (a pointer that may be nil, dereferenced several times) is now met first by another statement of the
	// edited function - obligations are assumed once checked, so only the first one fails. It absorbs one
	// failing successor, like an unproved obligation that disappeared.
	rescuedByFn := map[string]int{}
	var keys []string
	for _, o := range obs {
		key := o.Fn + "|" + famKind(o.Name)
		if unprovedBase[o.Name] && !editedName(o.Name) && o.Verdict == "unsat" {
			rescuedByFn[key]++
		}
		if (claimed[o.Name] || unprovedBase[o.Name]) && !editedName(o.Name) {
			continue
		}
		if o.Verdict == "unsat" || o.Verdict == "dropped" {
			if haveBase {
				discharged++ // new and proved: counted, fine
				nclaimedPresent++
				byBackend[o.Solver]++
				newProvedByFn[key]++
			}
			continue
		}
		if !haveBase {
			continue
		}
		newFail++
		if len(newFailByFn[key]) == 0 {
			keys = append(keys, key)
		}
		newFailByFn[key] = append(newFailByFn[key], o)
	}
	for _, key := range keys {
		fails := newFailByFn[key]
		lostClaimed := len(missingByFn[key]) - newProvedByFn[key]          // claimed obligations without a proved successor
		excess := len(fails) - missingUnprovedByFn[key] - rescuedByFn[key] // failing successors not explained by old unproved ones
		nrep := 0
		if os.Getenv("GOVC_DEBUG") != "" {
			fmt.Fprintf(os.Stderr, "DEBUG group %s missingClaimed=%d newProved=%d fails=%d missingUnproved=%d rescued=%d\n", key, len(missingByFn[key]), newProvedByFn[key], len(fails), missingUnprovedByFn[key], rescuedByFn[key])
		}
		if lostClaimed > 0 && excess > 0 {
			nrep = lostClaimed
			if excess < nrep {
				nrep = excess
			}
		}
		// refuted ones first: they carry a model
		sort.SliceStable(fails, func(i, j int) bool { return fails[i].Verdict == "sat" && fails[j].Verdict != "sat" })
		for i, o := range fails {
			if r.accumulatorGone(o) {
				undecided = append(undecided, "per-iteration clause about a variable the edited loop no longer assigns (the loop accumulates differently; nothing decided for this clause): "+o.Name+" ("+o.Verdict+")")
				continue
			}
			if r.provedInCallee(o) {
				// the inlined copy of a callee's obligation: the callee itself is verified for every input
				// and discharges it, so it holds in every calling context; that the copy does not discharge
				// is a weakness of the encoding of the inlined body (a loop cut without its invariants)
				undecided = append(undecided, "inlined copy of an obligation that the callee itself discharges for every input: "+o.Name+" ("+o.Verdict+")")
				continue
			}
			if i < nrep {
				old := missingByFn[key][0]
				if len(missingByFn[key]) > i {
					old = missingByFn[key][i]
				}
				viol = append(viol, violation{ob: o, reason: fmt.Sprintf("edited obligation fails: %d claimed obligation(s) of this kind in this function have no proved successor (e.g. %s), %s", lostClaimed, old, o.Verdict)})
				continue
			}
			if (o.Family == "POST" || o.Family == "COPY") && o.Verdict == "sat" && clauseProvedAtBase(o, base) {
				viol = append(viol, violation{ob: o, reason: "a postcondition that was proved at every return of this function on the pinned tree is refuted at a return path of the edited function"})
				continue
			}
			if o.Verdict == "sat" && excess > 0 && rootAlwaysCheckedAtBase(o, base) {
				viol = append(viol, violation{ob: o, reason: "a pointer that is dereferenced in this function on the pinned tree, every time provably non-nil, is now dereferenced where it may be nil"})
				continue
			}
			if o.Verdict == "sat" && excess > 0 && r.fullyProvedAtBase(o, base) {
				viol = append(viol, violation{ob: o, reason: "new obligation refuted in a function whose obligations of this kind were all proved on the pinned tree"})
				continue
			}
			undecided = append(undecided, "new unproved obligation: "+o.Name+" ("+o.Verdict+")")
		}
	}
	// 2b. a function whose contract no longer binds to its code (a renamed variable, a restructured loop, a
	// call site that moved): its invariants and assertions are partly missing, so a failed obligation there
	// is a broken proof, not a refutation. Nothing is decided for that function.
	baseBind := map[string]bool{}
	for _, be := range base.BindErrors {
		baseBind[be] = true
	}
	unboundFn := map[string]bool{}
	for fn := range poisoned {
		unboundFn[fn] = true
	}
	// an automatic invariant candidate that could not be decided in time was dropped: what rests on it fails
	// for no semantic reason
	for _, fr := range r.res {
		if fr.enc != nil && len(fr.enc.houdiniUndecided) > 0 {
			unboundFn[shortName(fr.fn)] = true
			undecided = append(undecided, fmt.Sprintf("solver time-out on an automatic invariant of %s (%s): nothing decided for this function", shortName(fr.fn), fr.enc.houdiniUndecided[0]))
		}
	}
	// whatever the property: a declared auxiliary invariant of the function that is not discharged, or an
	// obligation of the function that became vacuous, breaks every proof in that function
	for _, fr := range r.res {
		if fr.enc == nil || !haveBase {
			continue
		}
		for _, o := range fr.enc.obs {
			if o.Family == "LOOP" && o.houdini == 0 && !hasTag(o, "claim") && o.Verdict != "unsat" && o.Verdict != "dropped" && o.Verdict != "vacuous" {
				if !unboundFn[o.Fn] {
					undecided = append(undecided, "auxiliary loop invariant does not hold (proof broken, nothing decided for this function): "+o.Name+" ("+o.Verdict+")")
				}
				unboundFn[o.Fn] = true
			}
		}
	}
	for _, fr := range r.res {
		if fr.enc == nil {
			continue
		}
		for _, be := range fr.enc.bindErrs {
			if !baseBind[be] && isBindFailure(be) && breaksProof(be) {
				unboundFn[shortName(fr.fn)] = true
			}
		}
	}
	// loops were added or removed in a function whose contract attaches clauses to loops by number
	// (if the contract only has per-iteration clauses - which are checked, never assumed - nothing the proof
	// rests on is lost: only those clauses, now possibly attached to another loop, are left undecided)
	hasLoopInv := map[string]bool{}
	for _, fr := range r.res {
		if fr.enc != nil && fr.enc.topFrame != nil && fr.enc.topFrame.contract != nil && len(fr.enc.topFrame.contract.LoopInv) > 0 {
			hasLoopInv[shortName(fr.fn)] = true
		}
	}
	iterOnlyFn := map[string]bool{}
	for fn, n := range r.loopShape() {
		if bn, ok := base.LoopShape[fn]; ok && bn != n && n > 0 && !hasLoopInv[fn] {
			iterOnlyFn[fn] = true
			undecided = append(undecided, fmt.Sprintf("per-iteration clauses do not bind: %s had %d loops on the pinned tree and has %d now; its loop clauses are numbered", fn, bn, n))
			continue
		}
		if bn, ok := base.LoopShape[fn]; ok && bn != n && n > 0 {
			unboundFn[fn] = true
			undecided = append(undecided, fmt.Sprintf("contract does not bind: %s had %d loops on the pinned tree and has %d now; its loop clauses are numbered", fn, bn, n))
		}
	}
	// a function that now calls a function which did not exist on the pinned tree (an extracted helper): the
	// helper has no contract, so the caller's proof has lost what the inlined statements used to establish
	if len(base.AllFunctions) > 0 {
		known := map[string]bool{}
		for _, f := range base.AllFunctions {
			known[f] = true
		}
		byShort := map[string]*ssa.Function{}
		for _, f := range r.w.funcs {
			byShort[shortName(f)] = f
		}
		checked := map[string]bool{}
		for _, v := range viol {
			if checked[v.ob.Fn] {
				continue
			}
			checked[v.ob.Fn] = true
			f := byShort[v.ob.Fn]
			if f == nil {
				continue
			}
			for _, b := range f.Blocks {
				for _, in := range b.Instrs {
					c, ok := in.(*ssa.Call)
					if !ok {
						continue
					}
					if callee := c.Common().StaticCallee(); callee != nil && r.w.mine[pkgOf(callee)] && !known[shortName(callee)] {
						if !unboundFn[v.ob.Fn] {
							undecided = append(undecided, fmt.Sprintf("contract does not bind: %s calls %s, which did not exist on the pinned tree and has no contract", v.ob.Fn, shortName(callee)))
						}
						unboundFn[v.ob.Fn] = true
					}
				}
			}
		}
	}
	if len(iterOnlyFn) > 0 {
		var keep []violation
		for _, v := range viol {
			if iterOnlyFn[v.ob.Fn] && v.ob.Family == "POST" && strings.Contains(v.ob.Name, "#POST:iter:") {
				undecided = append(undecided, "per-iteration clause of a function whose loops were renumbered: "+v.ob.Name+" ("+v.ob.Verdict+")")
				continue
			}
			keep = append(keep, v)
		}
		viol = keep
	}
	if len(unboundFn) > 0 {
		var keep []violation
		for _, v := range viol {
			if unboundFn[v.ob.Fn] {
				undecided = append(undecided, "proof broken, contract of "+v.ob.Fn+" does not bind any more: "+v.ob.Name+" ("+v.ob.Verdict+")")
				continue
			}
			keep = append(keep, v)
		}
		viol = keep
	}
	// 3. known findings
	knownPrinted := map[string]bool{}
	var realViol []violation
	for _, v := range viol {
		if f, ok := known[v.ob.Name]; ok {
			if !knownPrinted[f.ID] {
				fmt.Printf("KNOWN-FINDING: property=%s %s %s\n", r.prop, f.ID, f.What)
				knownPrinted[f.ID] = true
			}
			continue
		}
		realViol = append(realViol, v)
	}
	// findings listed for obligations that are still failing but were never claimed
	for n, f := range known {
		if o, ok := cur[n]; ok && o.Verdict != "unsat" && !knownPrinted[f.ID] {
			fmt.Printf("KNOWN-FINDING: property=%s %s %s\n", r.prop, f.ID, f.What)
			knownPrinted[f.ID] = true
		}
	}
	// 4. report
	os.MkdirAll(filepath.Join(r.root, "replays"), 0o755)
	replayCache := map[string]*replayTest{}
	nreported := 0
	for i := range realViol {
		v := &realViol[i]
		enc := encOf[v.ob]
		if enc != nil && (v.ob.Verdict == "sat" || v.ob.Verdict == "unknown") {
			v.model = enc.modelFor(v.ob, 8000)
		}
		if r.noReplay {
		} else if rt := r.tryReplay(v, replayCache); rt != nil {
			v.test = rt
			v.confirmed = rt.Failed
			if !rt.Failed && strings.Contains(rt.Output, "ok  ") && v.ob.Family == "COPY" {
				// the executable form of the refuted clauses ran on the real code, on receivers with every
				// field populated, and held: the refutation is an artefact of an incomplete proof (typically a
				// copy loop rewritten in a shape the invariant synthesis does not know)
				v.spurious = true
			}
		}
		v.replay = r.writeReplay(v, i)
		if v.spurious {
			undecided = append(undecided, "refuted by the solver but the replay on the real code holds (see "+v.replay+"): "+v.ob.Name)
			continue
		}
		suffix := ""
		if !v.confirmed {
			suffix = " no-failing-input-found"
		}
		nreported++
		fmt.Printf("VIOLATION property=%s replay=%s obligation=%q reason=%q%s\n", r.prop, v.replay, v.ob.Name, v.reason, suffix)
	}
	// contracts that no longer bind to the code (renamed variables, restructured loops): nothing is decided
	// for their clauses
	for _, fr := range r.res {
		if fr.enc == nil {
			continue
		}
		for _, be := range fr.enc.bindErrs {
			if isBindFailure(be) && !baseBind[be] {
				undecided = append(undecided, "contract does not bind: "+be)
			}
		}
	}
	for _, u := range undecided {
		fmt.Printf("UNDECIDED property=%s %s\n", r.prop, u)
	}
	vac := r.vacuity()
	for _, o := range obs {
		for _, d := range o.crossDisagree {
			fmt.Printf("SOLVER-DISAGREEMENT property=%s %s refutes an obligation the deciding solver proved: %s\n", r.prop, d, o.Name)
		}
	}
	if r.tier == "thorough" && !noEvidence {
		r.canary = r.canaries()
		for _, c := range r.canary {
			if c.Applied && !c.Detected {
				fmt.Printf("SELFTEST property=%s canary %s is not reported any more: %s\n", r.prop, c.Seed, c.Note)
			}
		}
		if r.prop == "C17" {
			r.harness = r.copyHarnessAll()
			for _, h := range r.harness {
				if h.Result != "ok" {
					fmt.Printf("HARNESS property=%s %s: %s\n", r.prop, h.Function, h.Result)
				}
			}
		}
	}
	if !noEvidence {
		r.writeEvidence(evidenceOut, obs, nclaimedPresent, discharged, byBackend, solverMs, nreported, undecided, base, vac, knownPrinted)
	}
	fmt.Printf("property=%s tier=%s obligations=%d discharged=%d violations=%d undecided=%d wall=%.1fs\n", r.prop, r.tier, nclaimedPresent, discharged, nreported, len(undecided), time.Since(r.t0).Seconds())
	if nreported > 0 {
		return 1
	}
	return 0
}

// clauseKey: "<fn>#POST:ensures:<clause text>" without the return path
func clauseKey(n string) string {
	if i := strings.Index(n, " @return "); i >= 0 {
		return n[:i]
	}
	return n
}

// clauseProvedAtBase: every obligation of this postcondition clause was proved on the pinned tree.
func clauseProvedAtBase(o *Oblig, base Baseline) bool {
	k := clauseKey(o.Name)
	for _, n := range base.Unproved {
		if clauseKey(n) == k {
			return false
		}
	}
	for _, n := range base.Claimed {
		if clauseKey(n) == k {
			return true
		}
	}
	return false
}

// fullyProvedAtBase: the function existed on the pinned tree and had no unproved obligation of this family.
func (r *checkRun) fullyProvedAtBase(o *Oblig, base Baseline) bool {
	pfx := o.Fn + "#" + o.Family + ":"
	for _, n := range base.Unproved {
		if strings.HasPrefix(n, pfx) {
			return false
		}
	}
	for _, f := range base.Functions {
		if f == o.Fn {
			return true
		}
	}
	return false
}

type vacReport struct {
	FunctionsChecked int      `json:"functions_with_reachable_exit"`
	Unreachable      []string `json:"returns_unreachable_under_assumptions"`
}

func (r *checkRun) vacuity() vacReport {
	var v vacReport
	for _, fr := range r.res {
		if fr.enc == nil {
			continue
		}
		any := false
		loops := map[string]bool{}
		var loopOrder []string
		for _, o := range fr.enc.obs {
			if o.Family != "VAC" {
				continue
			}
			if o.Kind == "loopbody" {
				k := o.Name
				if i := strings.LastIndex(k, "#"); i >= 0 {
					k = k[:i]
				}
				if _, ok := loops[k]; !ok {
					loopOrder = append(loopOrder, k)
				}
				loops[k] = loops[k] || o.Verdict == "sat"
				continue
			}
			if o.Verdict == "sat" {
				any = true
			} else {
				v.Unreachable = append(v.Unreachable, o.Name)
			}
		}
		for _, k := range loopOrder {
			if !loops[k] {
				v.Unreachable = append(v.Unreachable, k+" (no back edge reachable)")
			}
		}
		if any {
			v.FunctionsChecked++
		}
	}
	return v
}

func (r *checkRun) writeReplay(v *violation, i int) string {
	name := fmt.Sprintf("%s_%d.json", r.prop, i)
	p := filepath.Join(r.root, "replays", name)
	rec := map[string]interface{}{
		"property":                 r.prop,
		"obligation":               v.ob.Name,
		"family":                   v.ob.Family,
		"function":                 v.ob.Fn,
		"reason":                   v.reason,
		"verdict":                  v.ob.Verdict,
		"solver":                   v.ob.Solver,
		"source":                   r.w.prog.Fset.Position(v.ob.pos).String(),
		"condition_that_must_hold": v.ob.cond,
		"solver_output":            v.model,
		"replayed_on_real_code":    v.confirmed,
	}
	if v.test != nil {
		rec["replay_test"] = v.test
	}
	b, _ := json.MarshalIndent(rec, "", " ")
	os.WriteFile(p, b, 0o644)
	return p
}

func writeEvidenceFailure(root, prop, tier string, seed int, msg string, wall float64, out string) {
	ev := map[string]interface{}{
		"property_id": prop, "tier": tier, "seed": seed, "level": "other",
		"coverage": map[string]interface{}{"explanation": "the repository did not load/type-check; nothing was decided: " + msg},
		"wall_s":   wall, "violations": 0,
	}
	if out == "" {
		out = filepath.Join(root, "evidence", prop+".json")
	}
	os.MkdirAll(filepath.Dir(out), 0o755)
	b, _ := json.MarshalIndent(ev, "", " ")
	os.WriteFile(out, b, 0o644)
}

func (r *checkRun) writeEvidence(out string, obs []*Oblig, nob, discharged int, byBackend map[string]int, solverMs, nviol int, undecided []string, base Baseline, vac vacReport, known map[string]bool) {
	if out == "" {
		out = filepath.Join(r.root, "evidence", r.prop+".json")
	}
	os.MkdirAll(filepath.Dir(out), 0o755)
	fnSet := map[string]bool{}
	contractFns := map[string]bool{}
	var samples []obRec
	unproved := 0
	var unprovedNames []string
	synt := 0
	for _, o := range obs {
		fnSet[o.Fn] = true
		if o.Solver == "syntactic" {
			synt++
		}
		if o.Verdict != "unsat" && o.Verdict != "dropped" {
			unproved++
			if len(unprovedNames) < 400 {
				unprovedNames = append(unprovedNames, o.Name+" ["+o.Verdict+"]")
			}
		}
	}
	// samples: a few solver-discharged obligations, deterministic choice
	for _, o := range obs {
		if o.Verdict == "unsat" && o.Solver != "syntactic" && len(samples) < 8 && (hash(o.Name)+uint32(r.seed))%7 == 0 {
			samples = append(samples, obRec{Name: o.Name, Verdict: o.Verdict, Solver: o.Solver, Ms: o.Ms})
		}
	}
	if len(samples) == 0 {
		for _, o := range obs {
			if len(samples) < 4 {
				samples = append(samples, obRec{Name: o.Name, Verdict: o.Verdict, Solver: o.Solver, Ms: o.Ms})
			}
		}
	}
	for _, fr := range r.res {
		if fr.enc != nil && fr.enc.topFrame != nil && fr.enc.topFrame.contract != nil && fnSet[shortName(fr.fn)] {
			contractFns[shortName(fr.fn)] = true
		}
	}
	trusted := map[string]bool{}
	var unsup []string
	for _, fr := range r.res {
		if fr.enc == nil {
			continue
		}
		for k := range fr.enc.usedTrusted {
			trusted[k] = true
		}
		for _, u := range fr.enc.unsupported {
			unsup = append(unsup, shortName(fr.fn)+": "+u)
		}
	}
	var tb []string
	tb = append(tb, "Go type checker and golang.org/x/tools/go/ssa v0.29.0 (SSA of the real packages)", "govc VC generator (this repository)", "z3 5.1.0 / z3 4.8.12 / cvc5 1.0.3",
		"integers are mathematical (no overflow obligations)", "string contents are uninterpreted", "dependency code (hcl, hclsyntax, cty, std) does not write through its arguments and does not panic outside the inlined bodies / trusted preconditions",
		"obligations are proved assert-then-assume within a function (a later obligation may rely on an earlier one)")
	var tk []string
	for k := range trusted {
		tk = append(tk, k)
	}
	sort.Strings(tk)
	for _, k := range tk {
		tb = append(tb, "trusted: "+k)
	}
	var ctr []string
	for k := range contractFns {
		ctr = append(ctr, k)
	}
	sort.Strings(ctr)
	var knownIDs []string
	for k := range known {
		knownIDs = append(knownIDs, k)
	}
	sort.Strings(knownIDs)
	sort.Strings(unsup)
	if len(unsup) > 50 {
		unsup = unsup[:50]
	}
	cov := map[string]interface{}{
		"obligations":                       nob,
		"discharged":                        discharged,
		"checker_cmd":                       fmt.Sprintf("bin/govc check -p %s -tier %s (per obligation: z3-new 5.1.0, then z3 4.8.12 and cvc5 1.0.3 on anything not decided)", r.prop, r.tier),
		"trusted_base":                      tb,
		"functions_with_obligations":        len(fnSet),
		"functions_under_explicit_contract": ctr,
		"generated_total":                   len(obs),
		"syntactic_discharges":              synt,
		"by_backend":                        byBackend,
		"solver_time_s":                     float64(solverMs) / 1000.0,
		"unproved_not_claimed":              unproved - nviol,
		"unproved_not_claimed_names":        unprovedNames,
		"undecided":                         undecided,
		"vacuity":                           vac,
		"known_findings":                    knownIDs,
		"baseline_claimed":                  len(base.Claimed),
		"out_of_subset_notes":               unsup,
		"samples":                           samples,
		"exhaustive":                        false,
	}
	if r.tier == "thorough" {
		asked, agree := 0, 0
		var dis []string
		for _, o := range obs {
			asked += o.crossAsked
			agree += o.crossAgree
			for _, d := range o.crossDisagree {
				dis = append(dis, d+" says sat: "+o.Name)
			}
		}
		cov["cross_solver_queries"] = asked
		cov["cross_solver_agreements"] = agree
		cov["cross_solver_undecided_by_second_solver"] = asked - agree - len(dis)
		cov["cross_solver_disagreements"] = dis
		det, app := 0, 0
		for _, c := range r.canary {
			if c.Applied {
				app++
			}
			if c.Detected {
				det++
			}
		}
		cov["trusted_ast_facts_audit_bounded"] = r.astAudit()
		cov["mutation_canaries"] = r.canary
		cov["mutation_canaries_applied"] = app
		cov["mutation_canaries_detected"] = det
		if r.harness != nil {
			cov["executable_copy_harness_bounded"] = r.harness
		}
	}
	ev := map[string]interface{}{
		"property_id": r.prop, "tier": r.tier, "seed": r.seed, "level": "proof",
		"coverage":    cov,
		"assumptions": tb,
		"wall_s":      time.Since(r.t0).Seconds(),
		"violations":  nviol,
	}
	b, _ := json.MarshalIndent(ev, "", " ")
	os.WriteFile(out, b, 0o644)
}

var _ = ssa.Function{}

func contractHasTag(ct *Contract, prop string, requiresOnly bool) bool {
	if ct == nil {
		return false
	}
	has := func(cs []Clause) bool {
		for _, c := range cs {
			for _, t := range c.Tags {
				if t == prop {
					return true
				}
			}
		}
		return false
	}
	if has(ct.Requires) {
		return true
	}
	if requiresOnly {
		return false
	}
	if has(ct.Ensures) {
		return true
	}
	for _, cs := range ct.LoopInv {
		if has(cs) {
			return true
		}
	}
	for _, cs := range ct.IterEns {
		if has(cs) {
			return true
		}
	}
	for _, tags := range ct.LoopComplete {
		for _, t := range tags {
			if t == prop {
				return true
			}
		}
	}
	for _, sc := range ct.Asserts {
		if has([]Clause{sc.Clause}) {
			return true
		}
	}
	return false
}

// relevantFuncs: the functions that carry obligations of a property. The global families (SAFE, FRAME) need
// every function; properties decided by tagged contract clauses need the functions under such a contract and
// the callers that must establish a tagged precondition.
func relevantFuncs(w *World, spec *Specs, prop string) []*ssa.Function {
	switch prop {
	case "C01", "C03", "C04", "C05":
		return w.funcs
	}
	e := newEnc(w, w.funcs[0], spec)
	var out []*ssa.Function
	for _, f := range w.funcs {
		rel := false
		if prop == "C17" && isCopyMethod(w, f) {
			rel = true
		}
		if contractHasTag(spec.contractFor(f), prop, false) {
			rel = true
		}
		for _, tags := range spec.loopComplete[shortName(f)] {
			for _, t := range tags {
				if t == prop {
					rel = true
				}
			}
		}
		for _, t := range spec.siteTags[shortName(f)] {
			if t == prop {
				rel = true
			}
		}
		e.top = f
		if !rel && contractHasTag(e.ifaceContractFor(f), prop, false) {
			rel = true
		}
		if !rel {
			for _, b := range f.Blocks {
				for _, in := range b.Instrs {
					c, ok := in.(*ssa.Call)
					if !ok {
						continue
					}
					cc := c.Common()
					if cc.IsInvoke() {
						if contractHasTag(spec.ifaceContract(cc.Value.Type(), cc.Method.Name()), prop, true) {
							rel = true
						}
					} else if callee := cc.StaticCallee(); callee != nil {
						if contractHasTag(spec.contractFor(callee), prop, true) || (w.mine[pkgOf(callee)] && contractHasTag(e.ifaceContractFor(callee), prop, true)) {
							rel = true
						}
					}
				}
			}
		}
		if rel {
			out = append(out, f)
		}
	}
	return out
}

func isBindFailure(be string) bool {
	// every translation failure of a clause counts: what matters is that it is new with respect to the
	// baseline (a renamed local may now resolve to a type or a package: "unknown decoder.blockTypes; haskey
	// of non-map")
	return strings.TrimSpace(be) != ""
}

func (r *checkRun) bindErrors() []string {
	var out []string
	for _, fr := range r.res {
		if fr.enc == nil {
			continue
		}
		for _, be := range fr.enc.bindErrs {
			if isBindFailure(be) {
				out = append(out, be)
			}
		}
	}
	sort.Strings(out)
	return out
}

// breaksProof: a missing assumption (an invariant that does not bind to an existing loop) can make other
// obligations of the function fail for no semantic reason; a missing assertion, ghost or a clause of a loop
// that no longer exists in a loop-free function cannot.
func breaksProof(be string) bool {
	if strings.Contains(be, "the function has 0 loops") {
		return false
	}
	return strings.Contains(be, "invariant") || strings.Contains(be, "iter clause") || strings.Contains(be, " auto ")
}

func (r *checkRun) loopShape() map[string]int {
	out := map[string]int{}
	for _, fr := range r.res {
		if fr.enc == nil || fr.enc.topFrame == nil {
			continue
		}
		ct := fr.enc.topFrame.contract
		if ct == nil || ct.IsIface || (len(ct.LoopInv) == 0 && len(ct.IterEns) == 0 && len(ct.LoopDec) == 0) {
			continue
		}
		out[shortName(fr.fn)] = len(fr.enc.topFrame.loops)
	}
	return out
}

// anchorFunctions: the functions defined in the files properties.jsonl anchors the property in (for the
// properties decided by tagged contracts; the global ones cover every function anyway).
func anchorFunctions(w *World, root, prop string) map[string]bool {
	out := map[string]bool{}
	switch prop {
	case "C01", "C03", "C04", "C05", "C17":
		return out
	}
	b, err := os.ReadFile(filepath.Join(root, "properties.jsonl"))
	if err != nil {
		return out
	}
	files := map[string]bool{}
	for _, l := range strings.Split(string(b), "\n") {
		var rec struct {
			ID      string `json:"id"`
			Anchors struct {
				Files []string `json:"files"`
			} `json:"anchors"`
		}
		if json.Unmarshal([]byte(l), &rec) != nil || rec.ID != prop {
			continue
		}
		for _, f := range rec.Anchors.Files {
			files[f] = true
		}
	}
	for _, f := range w.funcs {
		if f.Pos() == 0 && f.Parent() == nil {
			continue
		}
		pos := f.Pos()
		if pos == 0 && f.Parent() != nil {
			pos = f.Parent().Pos()
		}
		fn := shortPath(w.prog.Fset.Position(pos).Filename)
		if files[fn] {
			out[shortName(f)] = true
		}
	}
	return out
}

func hasTag(o *Oblig, t string) bool {
	for _, x := range o.tags {
		if x == t {
			return true
		}
	}
	return false
}

// copyDeps: the Copy methods of schema and lang that the property's functions (anchor files, contracts tagged
// with the property) call, directly or through other Copy methods; an interface call of Copy stands for every
// implementation.
func copyDeps(w *World, spec *Specs, prop string, anchorFns map[string]bool) map[string]bool {
	out := map[string]bool{}
	switch prop {
	case "C01", "C03", "C04", "C05", "C17":
		return out
	}
	var work []*ssa.Function
	for _, f := range w.funcs {
		if anchorFns[shortName(f)] || contractHasTag(spec.contractFor(f), prop, false) {
			work = append(work, f)
		}
	}
	seen := map[*ssa.Function]bool{}
	var copies []*ssa.Function
	for _, f := range w.funcs {
		if isCopyMethod(w, f) {
			copies = append(copies, f)
		}
	}
	for len(work) > 0 {
		f := work[len(work)-1]
		work = work[:len(work)-1]
		if seen[f] {
			continue
		}
		seen[f] = true
		for _, b := range f.Blocks {
			for _, in := range b.Instrs {
				c, ok := in.(ssa.CallInstruction)
				if !ok {
					continue
				}
				cc := c.Common()
				if cc.IsInvoke() {
					if cc.Method.Name() != "Copy" {
						continue
					}
					it, _ := cc.Value.Type().Underlying().(*types.Interface)
					if it == nil {
						continue
					}
					for _, g := range copies {
						rt := g.Signature.Recv().Type()
						if types.Implements(rt, it) && !out[shortName(g)] {
							out[shortName(g)] = true
							work = append(work, g)
						}
					}
				} else if g := cc.StaticCallee(); g != nil && isCopyMethod(w, g) && !out[shortName(g)] {
					out[shortName(g)] = true
					work = append(work, g)
				}
			}
		}
	}
	return out
}

var iterNameRe = regexp.MustCompile(`#POST:iter:loop (\d+) iter (.*)#\d+$`)

// accumulatorGone: o is a per-iteration clause that mentions old(len(X)) / old(X), and loop N of the
// (edited) function contains no assignment to any such X any more.
func (r *checkRun) accumulatorGone(o *Oblig) bool {
	m := iterNameRe.FindStringSubmatch(o.Name)
	if m == nil {
		return false
	}
	n, _ := strconv.Atoi(m[1])
	ex, err := parser.ParseExpr(m[2])
	if err != nil {
		return false
	}
	var fn *ssa.Function
	for _, f := range r.w.funcs {
		if shortName(f) == o.Fn {
			fn = f
		}
	}
	if fn == nil || fn.Syntax() == nil {
		return false
	}
	accs := map[string]bool{}
	ast.Inspect(ex, func(x ast.Node) bool {
		// "the element appended last": X[len(X)-1]
		if ix, ok := x.(*ast.IndexExpr); ok {
			if be, ok := ix.Index.(*ast.BinaryExpr); ok && be.Op == token.SUB {
				if c2, ok := be.X.(*ast.CallExpr); ok {
					if id2, ok := c2.Fun.(*ast.Ident); ok && id2.Name == "len" && len(c2.Args) == 1 && types.ExprString(c2.Args[0]) == types.ExprString(ix.X) {
						accs[types.ExprString(ix.X)] = true
					}
				}
			}
		}
		c, ok := x.(*ast.CallExpr)
		if !ok {
			return true
		}
		if id, ok := c.Fun.(*ast.Ident); ok && id.Name == "old" && len(c.Args) == 1 {
			a := c.Args[0]
			if c2, ok := a.(*ast.CallExpr); ok {
				if id2, ok := c2.Fun.(*ast.Ident); ok && (id2.Name == "len" || id2.Name == "cap") && len(c2.Args) == 1 {
					a = c2.Args[0]
				}
			}
			accs[types.ExprString(a)] = true
		}
		return true
	})
	if len(accs) == 0 {
		return false
	}
	var body *ast.BlockStmt
	switch d := fn.Syntax().(type) {
	case *ast.FuncDecl:
		body = d.Body
	case *ast.FuncLit:
		body = d.Body
	}
	if body == nil {
		return false
	}
	var loops []ast.Stmt
	ast.Inspect(body, func(x ast.Node) bool {
		switch x.(type) {
		case *ast.FuncLit:
			return false
		case *ast.ForStmt, *ast.RangeStmt:
			loops = append(loops, x.(ast.Stmt))
		}
		return true
	})
	if n < 1 || len(loops) == 0 {
		return false
	}
	// the verifier's loop ordinals follow SSA positions, which need not be the order of the for statements in
	// the source (nested loops): loop N is the statement whose header contains the position of its SSA loop
	// head; if that cannot be told, the variable counts as still accumulated if ANY loop assigns it
	var hpos token.Pos
	for _, fr := range r.res {
		if fr.enc != nil && fr.enc.topFrame != nil && shortName(fr.fn) == o.Fn {
			for h, li := range fr.enc.topFrame.loops {
				if li.ord == n {
					hpos = token.NoPos
					// (phis carry the position of the variable's declaration: skip them)
					for _, b := range append([]*ssa.BasicBlock{h}, h.Succs...) {
						for _, in := range b.Instrs {
							if _, isPhi := in.(*ssa.Phi); !isPhi && in.Pos().IsValid() && !hpos.IsValid() {
								hpos = in.Pos()
							}
						}
					}
				}
			}
		}
	}
	if hpos.IsValid() {
		var pick ast.Stmt
		for _, lp := range loops {
			var lbrace token.Pos
			switch x := lp.(type) {
			case *ast.ForStmt:
				lbrace = x.Body.Lbrace
			case *ast.RangeStmt:
				lbrace = x.Body.Lbrace
			}
			_ = lbrace
			if lp.Pos() <= hpos && hpos < lp.End() {
				pick = lp // the innermost statement containing the position (it comes last in pre-order)
			}
		}
		if pick != nil {
			loops = []ast.Stmt{pick}
		}
	}
	if os.Getenv("GOVC_DEBUG") != "" {
		fmt.Fprintf(os.Stderr, "DEBUG accumulatorGone %s loop %d hpos=%v candidates=%d accs=%v\n", o.Fn, n, r.w.prog.Fset.Position(hpos), len(loops), accs)
	}
	assigned := false
	for _, lp := range loops {
		ast.Inspect(lp, func(x ast.Node) bool {
			switch st := x.(type) {
			case *ast.AssignStmt:
				for _, l := range st.Lhs {
					if accs[types.ExprString(l)] {
						assigned = true
					}
				}
			case *ast.IncDecStmt:
				if accs[types.ExprString(st.X)] {
					assigned = true
				}
			}
			return true
		})
	}
	return !assigned
}

var nilRootRe = regexp.MustCompile(`#SAFE:nil:\*?([A-Za-z_][A-Za-z_0-9]*)`)

// rootAlwaysCheckedAtBase: o is a nil-dereference obligation on variable v (the leading identifier of the
// dereferenced expression); on the pinned tree this function dereferences v, and every such obligation
// was discharged (none was left unproved): v was guarded or known to be non-nil wherever it was used.
func rootAlwaysCheckedAtBase(o *Oblig, base Baseline) bool {
	m := nilRootRe.FindStringSubmatch(o.Name)
	if m == nil || !strings.HasPrefix(o.Name, o.Fn+"#SAFE:nil:") {
		return false
	}
	root := m[1]
	same := func(n string) bool {
		if !strings.HasPrefix(n, o.Fn+"#SAFE:nil:") {
			return false
		}
		mm := nilRootRe.FindStringSubmatch(n)
		return mm != nil && mm[1] == root
	}
	for _, n := range base.Unproved {
		if same(n) {
			return false
		}
	}
	for _, n := range base.Claimed {
		if same(n) {
			return true
		}
	}
	return false
}

// frameDeps: the hcl-lang functions statically reachable (call graph over static callees, closures included)
// from the functions a property is anchored in or that carry a contract tagged with it.
func frameDeps(w *World, spec *Specs, prop string, anchorFns map[string]bool) map[string]bool {
	out := map[string]bool{}
	switch prop {
	case "C01", "C03", "C04", "C05", "C17":
		return out
	}
	var work []*ssa.Function
	for _, f := range w.funcs {
		if anchorFns[shortName(f)] || contractHasTag(spec.contractFor(f), prop, false) {
			work = append(work, f)
		}
	}
	mine := map[*ssa.Function]bool{}
	for _, f := range w.funcs {
		mine[f] = true
	}
	seen := map[*ssa.Function]bool{}
	for len(work) > 0 {
		f := work[len(work)-1]
		work = work[:len(work)-1]
		if seen[f] {
			continue
		}
		seen[f] = true
		out[shortName(f)] = true
		for _, af := range f.AnonFuncs {
			if mine[af] {
				work = append(work, af)
			}
		}
		for _, b := range f.Blocks {
			for _, in := range b.Instrs {
				c, ok := in.(ssa.CallInstruction)
				if !ok {
					continue
				}
				if g := c.Common().StaticCallee(); g != nil && mine[g] && !seen[g] {
					work = append(work, g)
				}
			}
		}
	}
	return out
}

var inlNameRe = regexp.MustCompile(`^(.*)#(SAFE|FRAME|PRE):inl:([a-z]+):(.*)#\d+$`)

// provedInCallee: o is "<caller>#FAM:inl:<kind>:<callee>:<text>#k"; the callee is verified on its own in this
// run, has obligations "<callee>#FAM:<kind>:<text>#j", and all of them are discharged.
func (r *checkRun) provedInCallee(o *Oblig) bool {
	m := inlNameRe.FindStringSubmatch(o.Name)
	if m == nil {
		return false
	}
	fam, kind, rest := m[2], m[3], m[4]
	found, all := false, true
	for _, fr := range r.res {
		if fr.enc == nil {
			continue
		}
		callee := shortName(fr.fn)
		if !strings.HasPrefix(rest, callee+":") {
			continue
		}
		text := strings.TrimPrefix(rest, callee+":")
		pfx := callee + "#" + fam + ":" + kind + ":" + text + "#"
		for _, co := range fr.enc.obs {
			if strings.HasPrefix(co.Name, pfx) {
				found = true
				if co.Verdict != "unsat" {
					all = false
				}
			}
		}
	}
	return found && all
}
