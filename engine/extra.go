package main

import (
	"go/types"

	"golang.org/x/tools/go/ssa"
)

// extraObligations: obligation families that are not generated from one function body.
func extraObligations(w *World, spec *Specs, prop string, opt solveOpts) []*extraResult {
	var out []*extraResult
	if prop == "C03" || prop == "" {
		out = append(out, nondetObligations(w, spec, opt)...)
	}
	out = append(out, orderObligations(w, spec, prop)...)
	return out
}

// orderObligations: for functions declared returns-sorted, every returned slice is the operand of a sort call
// that dominates the return, with no later append to or store into that slice (dataflow on SSA). Together
// with the contract of the comparator this is "results are in source order", modulo the semantics of sort.
func orderObligations(w *World, spec *Specs, prop string) []*extraResult {
	var out []*extraResult
	for _, f := range w.funcs {
		tags, ok := spec.returnsSorted[shortName(f)]
		if !ok {
			continue
		}
		if prop != "" {
			has := false
			for _, t := range tags {
				if t == prop {
					has = true
				}
			}
			if !has {
				continue
			}
		}
		e := newEnc(w, f, spec)
		okAll, why := returnsSortedSlice(f)
		cond := "false"
		if okAll {
			cond = "true"
		}
		o := e.addOb(nil, "NONDET", "order", f.Pos(), "every returned slice was sorted last", cond, false)
		o.tags = tags
		o.trivial = true
		if okAll {
			o.Verdict, o.Solver = "unsat", "dataflow"
		} else {
			o.Verdict, o.Solver = "sat", "dataflow"
			o.Output = why
		}
		out = append(out, &extraResult{enc: e, obs: []*Oblig{o}})
	}
	return out
}

func sliceRootOf(v ssa.Value) ssa.Value {
	for {
		switch x := v.(type) {
		case *ssa.MakeInterface:
			v = x.X
		case *ssa.ChangeType:
			v = x.X
		case *ssa.Convert:
			v = x.X
		case *ssa.UnOp:
			// a load of a local variable that lives in a cell (captured by the comparator closure)
			if al, ok := x.X.(*ssa.Alloc); ok && x.Op.String() == "*" {
				return al
			}
			return v
		default:
			return v
		}
	}
}

func returnsSortedSlice(f *ssa.Function) (bool, string) {
	nret := 0
	for _, b := range f.Blocks {
		ret, ok := b.Instrs[len(b.Instrs)-1].(*ssa.Return)
		if !ok {
			continue
		}
		for _, rv := range ret.Results {
			if _, isSlice := rv.Type().Underlying().(*types.Slice); !isSlice {
				continue
			}
			if c, ok := rv.(*ssa.Const); ok && c.IsNil() {
				continue
			}
			// an empty slice is trivially sorted
			if emptySliceValue(rv) {
				continue
			}
			if al, ok := sliceRootOf(rv).(*ssa.Alloc); ok {
				// a variable in a cell: empty at this return if no store of a possibly non-empty value reaches it
				nonEmptyReaches := false
				for _, b2 := range f.Blocks {
					for _, in := range b2.Instrs {
						if st, ok := in.(*ssa.Store); ok && st.Addr == al && !emptySliceValue(st.Val) && instrReaches(st, ret) {
							nonEmptyReaches = true
						}
					}
				}
				if !nonEmptyReaches {
					continue
				}
			}
			nret++
			found := false
			for _, b2 := range f.Blocks {
				for _, in := range b2.Instrs {
					c, ok := in.(*ssa.Call)
					if !ok || isSortCall(c.Common()) == "" || len(c.Common().Args) == 0 {
						continue
					}
					if sliceRootOf(c.Common().Args[0]) == sliceRootOf(rv) && instrDominates(c, ret) && !storedAfter(f, sliceRootOf(rv), c) {
						found = true
					}
				}
			}
			if !found {
				return false, "a returned slice is not the operand of a dominating sort call: " + rv.Name() + " at " + f.Prog.Fset.Position(ret.Pos()).String()
			}
		}
	}
	if nret == 0 {
		return false, "no sorted slice is returned"
	}
	return true, ""
}

// hasElementWrites: some store goes into an element of the slice value.
func hasElementWrites(f *ssa.Function, s ssa.Value) bool {
	for _, b := range f.Blocks {
		for _, in := range b.Instrs {
			if ia, ok := in.(*ssa.IndexAddr); ok && ia.X == s {
				return true
			}
		}
	}
	return false
}


// storedAfter: the cell is assigned again after the sort call (on some path the call dominates).
func storedAfter(f *ssa.Function, root ssa.Value, sortCall *ssa.Call) bool {
	al, ok := root.(*ssa.Alloc)
	if !ok {
		return false
	}
	for _, b := range f.Blocks {
		for _, in := range b.Instrs {
			if st, ok := in.(*ssa.Store); ok && st.Addr == al && instrDominates(sortCall, st) {
				return true
			}
		}
	}
	return false
}


func emptySliceValue(v ssa.Value) bool {
	switch x := v.(type) {
	case *ssa.MakeSlice:
		if k, ok := x.Len.(*ssa.Const); ok && k.Int64() == 0 {
			return true
		}
	case *ssa.Slice:
		// []T{}: a slice of a zero-length array
		if al, ok := x.X.(*ssa.Alloc); ok {
			if p, ok := al.Type().Underlying().(*types.Pointer); ok {
				if a, ok := p.Elem().Underlying().(*types.Array); ok && a.Len() == 0 {
					return true
				}
			}
		}
	case *ssa.Const:
		return x.IsNil()
	}
	return false
}

// instrReaches: control can flow from a to b.
func instrReaches(a, b ssa.Instruction) bool {
	if a.Block() == b.Block() {
		for _, in := range a.Block().Instrs {
			if in == a {
				return true
			}
			if in == b {
				break
			}
		}
	}
	seen := map[*ssa.BasicBlock]bool{}
	var dfs func(x *ssa.BasicBlock) bool
	dfs = func(x *ssa.BasicBlock) bool {
		for _, s := range x.Succs {
			if s == b.Block() {
				return true
			}
			if !seen[s] {
				seen[s] = true
				if dfs(s) {
					return true
				}
			}
		}
		return false
	}
	return dfs(a.Block())
}
