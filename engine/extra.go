package main

// extraObligations: obligation families that are not generated from one function body.
func extraObligations(w *World, spec *Specs, prop string, opt solveOpts) []*extraResult {
	var out []*extraResult
	if prop == "C03" || prop == "" {
		out = append(out, nondetObligations(w, spec, opt)...)
	}
	return out
}
