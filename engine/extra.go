package main

// extraObligations: obligation families that are not generated from one function body.
func extraObligations(w *World, spec *Specs, prop string, opt solveOpts) []*extraResult {
	return nil
}
