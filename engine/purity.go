package main

import (
	"go/types"
	"sort"

	"golang.org/x/tools/go/ssa"
)

// isValueGetter: the function computes its results from its (value) parameters only: no calls, no
// stores except into its own locals, no loads except from its own locals. Such a function is a pure
// function of its arguments, so an interface method all of whose implementations are value getters can
// be modelled as an uninterpreted function of receiver and arguments.
func isValueGetter(f *ssa.Function) bool {
	if f == nil || len(f.Blocks) == 0 {
		return false
	}
	for _, p := range f.Params {
		if !getterParamOK(p.Type()) {
			return false
		}
	}
	local := func(v ssa.Value) bool {
		for {
			switch x := v.(type) {
			case *ssa.Alloc:
				return !x.Heap
			case *ssa.FieldAddr:
				v = x.X
			case *ssa.IndexAddr:
				if _, ok := x.X.Type().Underlying().(*types.Pointer); ok {
					v = x.X
				} else {
					return false
				}
			default:
				return false
			}
		}
	}
	for _, b := range f.Blocks {
		for _, in := range b.Instrs {
			switch x := in.(type) {
			case *ssa.Store:
				if !local(x.Addr) {
					return false
				}
			case *ssa.UnOp:
				if x.Op.String() == "*" && !local(x.X) {
					return false
				}
			case *ssa.Call:
				if bi, ok := x.Call.Value.(*ssa.Builtin); ok && (bi.Name() == "len" || bi.Name() == "cap") {
					continue
				}
				return false
			case *ssa.MapUpdate, *ssa.MakeMap, *ssa.MakeSlice, *ssa.MakeClosure, *ssa.Lookup, *ssa.Range, *ssa.Next, *ssa.Go, *ssa.Defer, *ssa.Panic:
				return false
			case *ssa.Alloc:
				if x.Heap {
					return false
				}
			}
		}
	}
	return true
}

func getterParamOK(t types.Type) bool {
	switch u := t.Underlying().(type) {
	case *types.Basic:
		return true
	case *types.Struct:
		for i := 0; i < u.NumFields(); i++ {
			switch u.Field(i).Type().Underlying().(type) {
			case *types.Struct:
				if !getterParamOK(u.Field(i).Type()) {
					return false
				}
			}
		}
		return true
	case *types.Slice, *types.Interface, *types.Pointer, *types.Map:
		return true // passed by value; contents are not read (no loads through them are allowed)
	}
	return false
}

// pureIfaceMethod: every implementation of the interface method in the program is a value getter.
func (w *World) pureIfaceMethodU(it types.Type, m *types.Func) bool {
	key := it.String() + "." + m.Name()
		if v, ok := w.pureMemo[key]; ok {
				return v
	}
		iface, ok := it.Underlying().(*types.Interface)
	res := ok
	n := 0
	if ok {
		for _, T := range w.prog.RuntimeTypes() {
			if _, isI := T.Underlying().(*types.Interface); isI {
				continue
			}
			if !types.Implements(T, iface) {
				continue
			}
			sel := w.prog.MethodSets.MethodSet(T).Lookup(m.Pkg(), m.Name())
			if sel == nil {
				continue
			}
			fn := w.prog.MethodValue(sel)
			if fn == nil {
				continue
			}
			// pointer types of value-receiver methods get wrappers; look through them
			if fn.Synthetic != "" {
				if _, isPtr := T.Underlying().(*types.Pointer); isPtr {
					continue
				}
			}
			n++
			if !isValueGetter(fn) {
				res = false
				break
			}
		}
	}
	if n == 0 {
		res = false
	}
		w.pureMemo[key] = res
		return res
}

// isReader: the function writes nothing but its own locals and calls only readers; its results are a
// deterministic function of its arguments and the heap it is called in.
func (w *World) isReaderU(f *ssa.Function, depth int) bool {
	if f == nil || len(f.Blocks) == 0 {
		return false
	}
		if v, ok := w.readerMemo[f]; ok {
				return v
	}
	w.readerMemo[f] = false // cycles: not a reader
		local := func(v ssa.Value) bool {
		for {
			switch x := v.(type) {
			case *ssa.Alloc:
				return true
			case *ssa.FieldAddr:
				v = x.X
			case *ssa.IndexAddr:
				if _, ok := x.X.Type().Underlying().(*types.Pointer); ok {
					v = x.X
				} else {
					return false
				}
			default:
				return false
			}
		}
	}
	res := true
	for _, b := range f.Blocks {
		for _, in := range b.Instrs {
			switch x := in.(type) {
			case *ssa.Store:
				if !local(x.Addr) {
					res = false
				}
			case *ssa.MapUpdate, *ssa.Go, *ssa.Defer, *ssa.Panic, *ssa.MakeClosure, *ssa.Send:
				res = false
			case *ssa.Call:
				if bi, ok := x.Call.Value.(*ssa.Builtin); ok {
					if bi.Name() != "len" && bi.Name() != "cap" {
						res = false
					}
					continue
				}
				if x.Call.IsInvoke() {
					// interface methods all of whose implementations are readers
					if nt, ok := x.Call.Value.Type().(*types.Named); ok && nt.Obj().Pkg() != nil && w.mine[nt.Obj().Pkg()] &&
						(w.declaredPure[nt.Obj().Pkg().Name()+"."+nt.Obj().Name()+"."+x.Call.Method.Name()] || w.pureIfaceMethodU(x.Call.Value.Type(), x.Call.Method) || w.readerIfaceMethodU(x.Call.Value.Type(), x.Call.Method)) {
						continue
					}
					res = false
					continue
				}
				c := x.Call.StaticCallee()
				if c == nil {
					res = false
					continue
				}
				if cp := c.Pkg; cp != nil && !w.mine[cp.Pkg] {
					// dependency functions on plain values are pure; listed ones only read their arguments
					ok := true
					if w.readOnlyExt != nil && w.readOnlyExt(shortName(c)) {
						continue
					}
					for _, a := range x.Call.Args {
						if !valueLike(a.Type(), 0) {
							ok = false
						}
					}
					if !ok {
						res = false
					}
					continue
				}
				if !w.isReaderU(c, depth+1) {
					res = false
				}
			}
		}
	}
		w.readerMemo[f] = res
		return res
}

// readerIfaceMethod: every implementation of the interface method is a reader.
func (w *World) readerIfaceMethodU(it types.Type, m *types.Func) bool {
	key := "R:" + it.String() + "." + m.Name()
		if v, ok := w.pureMemo[key]; ok {
				return v
	}
	w.pureMemo[key] = false // cycles: not a reader
		iface, ok := it.Underlying().(*types.Interface)
	res := ok
	n := 0
	if ok {
		for _, T := range w.prog.RuntimeTypes() {
			if _, isI := T.Underlying().(*types.Interface); isI {
				continue
			}
			if !types.Implements(T, iface) {
				continue
			}
			sel := w.prog.MethodSets.MethodSet(T).Lookup(m.Pkg(), m.Name())
			if sel == nil {
				continue
			}
			fn := w.prog.MethodValue(sel)
			if fn == nil {
				continue
			}
			if fn.Synthetic != "" {
				continue // wrappers of methods counted at their declaring type
			}
			n++
			if !w.isReaderU(fn, 0) {
				res = false
				break
			}
		}
	}
	if n == 0 {
		res = false
	}
		w.pureMemo[key] = res
		return res
}

// The purity analyses share memo tables and break cycles by provisional answers, so they run under one
// lock: their results must not depend on the interleaving of the verification workers.
func (w *World) isReader(f *ssa.Function, depth int) bool {
	w.pmu.Lock()
	defer w.pmu.Unlock()
	return w.isReaderU(f, depth)
}

func (w *World) readerIfaceMethod(it types.Type, m *types.Func) bool {
	w.pmu.Lock()
	defer w.pmu.Unlock()
	return w.readerIfaceMethodU(it, m)
}

func (w *World) pureIfaceMethod(it types.Type, m *types.Func) bool {
	w.pmu.Lock()
	defer w.pmu.Unlock()
	return w.pureIfaceMethodU(it, m)
}

// implementations: the concrete methods behind an interface method of an hcl-lang interface (nil if the
// interface is not ours or nothing implements it).
func (w *World) implementations(it types.Type, m *types.Func) []*ssa.Function {
	nt, ok := it.(*types.Named)
	if !ok || nt.Obj().Pkg() == nil || !w.mine[nt.Obj().Pkg()] {
		return nil
	}
	iface, ok := it.Underlying().(*types.Interface)
	if !ok {
		return nil
	}
	w.pmu.Lock()
	defer w.pmu.Unlock()
	key := it.String() + "." + m.Name()
	if r, ok := w.implMemo[key]; ok {
		return r
	}
	var out []*ssa.Function
	seen := map[*ssa.Function]bool{}
	for _, T := range w.prog.RuntimeTypes() {
		if _, isI := T.Underlying().(*types.Interface); isI {
			continue
		}
		if !types.Implements(T, iface) {
			continue
		}
		sel := w.prog.MethodSets.MethodSet(T).Lookup(m.Pkg(), m.Name())
		if sel == nil {
			continue
		}
		fn := w.prog.MethodValue(sel)
		if fn == nil || fn.Synthetic != "" || seen[fn] {
			continue
		}
		seen[fn] = true
		out = append(out, fn)
	}
	sort.Slice(out, func(i, j int) bool { return out[i].String() < out[j].String() })
	w.implMemo[key] = out
	return out
}
