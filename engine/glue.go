package main

import (
	"regexp"
	"fmt"
	"go/token"
	"go/types"
	"sort"
	"strings"

	"golang.org/x/tools/go/ssa"
)

// ---- trusted type facts ---------------------------------------------------------------------

func fieldKeyOf(t types.Type, s *types.Struct, i int) string {
	name := "?"
	if p, ok := t.(*types.Pointer); ok {
		t = p.Elem()
	}
	if n, ok := t.(*types.Named); ok && n.Obj().Pkg() != nil {
		name = n.Obj().Pkg().Name() + "." + n.Obj().Name()
	}
	return name + "." + s.Field(i).Name()
}

func typeStr(t types.Type) string {
	return types.TypeString(t, func(p *types.Package) string { return p.Name() })
}

func (e *Enc) nonNilTerm(t types.Type, term string) string {
	switch e.d.sortOf(t) {
	case "Iface":
		return "(not (= (itag " + term + ") 0))"
	case "Int":
		return "(not (= " + term + " 0))"
	}
	return ""
}

func (e *Enc) fieldFacts(t types.Type, s *types.Struct, i int, term string) {
	k := fieldKeyOf(t, s, i)
	if e.spec.nonnilField[k] {
		if f := e.nonNilTerm(s.Field(i).Type(), term); f != "" {
			e.assumeG(f)
			e.usedTrusted["nonnil "+k] = true
		}
	}
	e.typeFacts(s.Field(i).Type(), term, true)
}

func (e *Enc) loadFacts(fr *Frame, x *ssa.UnOp, term string) {
	switch a := x.X.(type) {
	case *ssa.FieldAddr:
		if t, s, ok := derefStruct(a.X.Type()); ok {
			e.fieldFacts(t, s, a.Field, term)
			e.structInvFacts(fr, a, t)
		}
	case *ssa.IndexAddr:
		k := typeStr(a.X.Type())
		if e.spec.nonnilElem[k] {
			if f := e.nonNilTerm(x.Type(), term); f != "" {
				e.assumeG(f)
				e.usedTrusted["elem-nonnil "+k] = true
			}
		}
		e.typeFacts(x.Type(), term, true)
	default:
		e.typeFacts(x.Type(), term, true)
	}
}

// structInvFacts: trusted invariants of (immutable, dependency-owned) struct types, assumed for the object
// a field is read from, in the state of the read.
func (e *Enc) structInvFacts(fr *Frame, a *ssa.FieldAddr, t types.Type) {
	n, ok := t.(*types.Named)
	if !ok || n.Obj().Pkg() == nil {
		return
	}
	key := n.Obj().Pkg().Name() + "." + n.Obj().Name()
	invs := e.spec.structInv[key]
	if len(invs) == 0 || fr.curState == nil {
		return
	}
	ad := fr.addrs[a]
	if ad == nil || len(ad.path) > 0 {
		return
	}
	ref := ad.loc[0]
	ck := fmt.Sprintf("%s|%s|%d", key, ref, fr.curState.ver)
	if e.invDone[ck] {
		return
	}
	e.invDone[ck] = true
	env := &ExprEnv{e: e, fr: fr, vars: map[string]tval{"v": {t: ref, typ: types.NewPointer(t)}}, st: fr.curState, old: fr.curState, a0: fr.a0, pkg: n.Obj().Pkg()}
	for _, cl := range invs {
		env.errs = nil
		f, err := env.formula(cl.Text)
		if err != nil {
			e.bindErrs = append(e.bindErrs, fmt.Sprintf("structinv %s: %v", key, err))
			continue
		}
		e.assumeG(f)
		e.usedTrusted["structinv "+key+": "+cl.Text] = true
	}
}

func (e *Enc) mapValFacts(m *types.Map, term, in string) {
	e.typeFacts(m.Elem(), term, true)
	k := typeStr(m)
	if e.spec.nonnilMapVal[k] {
		if f := e.nonNilTerm(m.Elem(), term); f != "" {
			e.assumeG("(=> " + in + " " + f + ")")
			e.usedTrusted["mapval-nonnil "+k] = true
		}
	}
}

func (e *Enc) rangeValFacts(fr *Frame, nx *ssa.Next, x *ssa.Extract, term string) {
	rg, ok := nx.Iter.(*ssa.Range)
	if !ok {
		return
	}
	m, ok := rg.X.Type().Underlying().(*types.Map)
	if !ok {
		return
	}
	k := typeStr(rg.X.Type())
	k2 := typeStr(m)
	if e.spec.nonnilMapVal[k] || e.spec.nonnilMapVal[k2] {
		if f := e.nonNilTerm(m.Elem(), term); f != "" {
			e.assumeG("(=> " + fr.tup[nx][0] + " " + f + ")")
			e.usedTrusted["mapval-nonnil "+k] = true
		}
	}
}

func (e *Enc) resultFacts(fr *Frame, c *ssa.Call, callee *ssa.Function) {
	if e.spec.nonnilResult[shortName(callee)] {
		if t, ok := fr.vals[c]; ok {
			if f := e.nonNilTerm(c.Type(), t); f != "" {
				e.assumeG(f)
				e.usedTrusted["result-nonnil "+shortName(callee)] = true
			}
		}
	}
}

func (e *Enc) invokeFacts(fr *Frame, c *ssa.Call, it types.Type, method, recv string) {}

// ---- contracts at call sites ---------------------------------------------------------------------

func paramNames(f *ssa.Function, ct *Contract) []string {
	var ns []string
	// the header names the parameters by position; when the signature was edited (a parameter added or
	// removed) the positions say nothing and the source names are used
	useHeader := ct != nil && len(ct.Params) == len(f.Params)
	for i, p := range f.Params {
		n := p.Name()
		if useHeader {
			n = ct.Params[i]
		}
		ns = append(ns, n)
	}
	return ns
}

func resultNames(sig *types.Signature, ct *Contract) []string {
	var ns []string
	r := sig.Results()
	for i := 0; i < r.Len(); i++ {
		n := r.At(i).Name()
		if ct != nil && i < len(ct.Results) {
			n = ct.Results[i]
		}
		if n == "" || n == "_" {
			if r.Len() == 1 {
				n = "result"
			} else {
				n = fmt.Sprintf("result%d", i)
			}
		}
		ns = append(ns, n)
	}
	return ns
}

func (e *Enc) callContract(fr *Frame, st *State, c *ssa.Call, callee *ssa.Function, ct *Contract, args []string) *State {
	cc := c.Common()
	vars := map[string]tval{}
	if ct.IsIface {
		// interface contract applied to a concrete method: parameters are named after the receiver
		vars["self"] = tval{t: args[0], typ: callee.Params[0].Type()}
		for i := 1; i < len(callee.Params); i++ {
			n := callee.Params[i].Name()
			if i-1 < len(ct.Params) {
				n = ct.Params[i-1]
			}
			vars[n] = tval{t: args[i], typ: callee.Params[i].Type()}
		}
	} else {
		for i, n := range paramNames(callee, ct) {
			vars[n] = tval{t: args[i], typ: callee.Params[i].Type()}
		}
	}
	env := &ExprEnv{e: e, fr: fr, vars: vars, st: st, old: st, a0: st.nxt, pkg: pkgOf(callee)}
	text := e.exprText(c.Pos(), "call")
	for _, r := range ct.Requires {
		env.errs = nil
		f, err := env.formula(r.Text)
		if err != nil {
			e.bindErr(ct, r, err)
			continue
		}
		o := e.addOb(fr, "PRE", "pre", c.Pos(), text+" requires "+r.Text, f, false)
		o.tags = r.Tags
		e.assumeG(f)
	}
	pre := st
	mine := e.w.mine[pkgOf(callee)]
	pure := !mine
	for _, a := range cc.Args {
		if !valueLike(a.Type(), 0) {
			pure = false
		}
	}
	if e.readerUF(callee) {
		e.readerResult(fr, c, e.readerName(callee, st), st, args, cc.Args)
	} else if pure || e.spec.pure[shortName(callee)] {
		e.ufResult(fr, c, "X_"+san(shortName(callee)), args, cc.Args)
	} else {
		st = e.havocCall(fr, st, c, false)
		st = e.applyModifies(fr, st, pre, c, callee, ct, env)
	}
	// results
	rn := resultNames(callee.Signature, ct)
	if ts, ok := fr.tup[c]; ok {
		for i, n := range rn {
			vars[n] = tval{t: ts[i], typ: callee.Signature.Results().At(i).Type()}
		}
	} else if len(rn) == 1 {
		vars[rn[0]] = tval{t: fr.vals[c], typ: callee.Signature.Results().At(0).Type()}
	}
	post := &ExprEnv{e: e, fr: fr, vars: vars, st: st, old: pre, a0: pre.nxt, pkg: pkgOf(callee), assuming: true}
	for _, r := range ct.Ensures {
		post.errs = nil
		f, err := post.formula(r.Text)
		if err != nil {
			if !strings.Contains(err.Error(), "unknown identifier") {
				e.bindErr(ct, r, err) // (clauses about the callee's locals or ghosts say nothing to a caller)
			}
			continue
		}
		e.assumeG(f)
	}
	e.resultFacts(fr, c, callee)
	return st
}

func (e *Enc) callIfaceContract(fr *Frame, st *State, c *ssa.Call, ct *Contract, recv string, args []string) *State {
	cc := c.Common()
	sig := cc.Method.Type().(*types.Signature)
	vars := map[string]tval{"self": {t: recv, typ: cc.Value.Type()}}
	for i := 0; i < sig.Params().Len(); i++ {
		n := sig.Params().At(i).Name()
		if i < len(ct.Params) {
			n = ct.Params[i]
		}
		vars[n] = tval{t: args[i], typ: sig.Params().At(i).Type()}
	}
	env := &ExprEnv{e: e, fr: fr, vars: vars, st: st, old: st, a0: st.nxt, pkg: e.ifacePkg(cc.Value.Type())}
	text := e.exprText(c.Pos(), "call")
	for _, r := range ct.Requires {
		env.errs = nil
		f, err := env.formula(r.Text)
		if err != nil {
			e.bindErr(ct, r, err)
			continue
		}
		o := e.addOb(fr, "PRE", "pre", c.Pos(), text+" requires "+r.Text, f, false)
		o.tags = r.Tags
		e.assumeG(f)
	}
	pre := st
	st = e.havocCall(fr, st, c, false)
	rn := resultNames(sig, ct)
	if ts, ok := fr.tup[c]; ok {
		for i, n := range rn {
			vars[n] = tval{t: ts[i], typ: sig.Results().At(i).Type()}
		}
	} else if len(rn) == 1 {
		vars[rn[0]] = tval{t: fr.vals[c], typ: sig.Results().At(0).Type()}
	}
	post := &ExprEnv{e: e, fr: fr, vars: vars, st: st, old: pre, a0: pre.nxt, pkg: env.pkg, assuming: true}
	for _, r := range ct.Ensures {
		post.errs = nil
		f, err := post.formula(r.Text)
		if err != nil {
			e.bindErr(ct, r, err)
			continue
		}
		e.assumeG(f)
	}
	return st
}

func (e *Enc) ifacePkg(t types.Type) *types.Package {
	if n, ok := t.(*types.Named); ok {
		return n.Obj().Pkg()
	}
	return nil
}

func (e *Enc) bindErr(ct *Contract, c Clause, err error) {
	e.bindErrs = append(e.bindErrs, fmt.Sprintf("%s (%s:%d): %v", ct.Key, shortPath(ct.File), c.Line, err))
}

var repoRoot = "/repo"

func shortPath(p string) string {
	p = strings.TrimPrefix(p, repoRoot+"/")
	p = strings.TrimPrefix(p, "/repo/")
	return p
}

// modTarget: one entry of a modifies clause, evaluated in the pre-state.
type modTarget struct {
	ref   string       // object whose cells may be written
	heaps []string     // heaps affected
	elems bool         // all elements (slice backing array / map entries)
}

func (e *Enc) modTargets(env *ExprEnv, ct *Contract) []modTarget {
	var out []modTarget
	for _, m := range ct.Modifies {
		env.errs = nil
		switch {
		case strings.HasSuffix(m, "[*]"):
			v, err := env.term(strings.TrimSuffix(m, "[*]"))
			if err != nil {
				e.bindErr(ct, Clause{Text: m}, err)
				continue
			}
			switch u := v.typ.Underlying().(type) {
			case *types.Slice:
				out = append(out, modTarget{ref: "(sarr " + v.t + ")", heaps: []string{e.elemHeap(u.Elem())}, elems: true})
			case *types.Map:
				d, vv, l := e.mapHeaps(u)
				out = append(out, modTarget{ref: v.t, heaps: []string{d, vv, l}, elems: true})
			}
		case strings.HasPrefix(m, "*"):
			v, err := env.term(strings.TrimPrefix(m, "*"))
			if err != nil {
				e.bindErr(ct, Clause{Text: m}, err)
				continue
			}
			pt, ok := v.typ.Underlying().(*types.Pointer)
			if !ok {
				continue
			}
			var hs []string
			if s, ok := pt.Elem().Underlying().(*types.Struct); ok {
				for i := 0; i < s.NumFields(); i++ {
					hs = append(hs, e.fieldHeap(pt.Elem(), s, i))
				}
			} else {
				hs = []string{e.cellHeap(pt.Elem())}
			}
			out = append(out, modTarget{ref: v.t, heaps: hs})
		default:
			// x.f : field f of object x
			i := strings.LastIndex(m, ".")
			if i < 0 {
				continue
			}
			v, err := env.term(m[:i])
			if err != nil {
				e.bindErr(ct, Clause{Text: m}, err)
				continue
			}
			pt, ok := v.typ.Underlying().(*types.Pointer)
			if !ok {
				continue
			}
			if s, ok := pt.Elem().Underlying().(*types.Struct); ok {
				for j := 0; j < s.NumFields(); j++ {
					if s.Field(j).Name() == m[i+1:] {
						out = append(out, modTarget{ref: v.t, heaps: []string{e.fieldHeap(pt.Elem(), s, j)}})
					}
				}
			}
		}
	}
	return out
}

func (e *Enc) applyModifies(fr *Frame, st, pre *State, c *ssa.Call, callee *ssa.Function, ct *Contract, env *ExprEnv) *State {
	for _, mt := range e.modTargets(env, ct) {
		// the caller must itself be allowed to write there
		e.frameOb(fr, c.Pos(), e.exprText(c.Pos(), "call")+" modifies", mt.ref, "")
		for _, h := range mt.heaps {
			e.n++
			fn := fmt.Sprintf("HM%d_%s", e.n, h)
			e.declHeapFn(fn, h)
			ns := e.newState(sFill, st)
			ns.heap, ns.loc, ns.fn = h, Loc{mt.ref}, fn
			st = ns
		}
	}
	return st
}

func (e *Enc) modifiedHeaps(callee *ssa.Function, ct *Contract) []string {
	// static approximation by type (used for loop havoc): evaluate against dummy parameter terms
	vars := map[string]tval{}
	for i, n := range paramNames(callee, ct) {
		vars[n] = tval{t: "dummy", typ: callee.Params[i].Type()}
	}
	e.quant++
	defer func() { e.quant-- }()
	env := &ExprEnv{e: e, vars: vars, st: e.dummyState(), old: e.dummyState(), a0: "A0", pkg: pkgOf(callee)}
	var hs []string
	for _, mt := range e.modTargets(env, ct) {
		hs = append(hs, mt.heaps...)
	}
	return hs
}

func (e *Enc) dummyState() *State {
	if e.dummy == nil {
		e.dummy = e.newState(sInit, nil)
		e.dummy.nxt = "A0"
	}
	return e.dummy
}

// modifiesAllows: the store target is named by this function's own modifies clause.
func (e *Enc) modifiesAllows(fr *Frame, ref string) string {
	if fr.inl || len(fr.modRefs) == 0 {
		return ""
	}
	var ors []string
	for _, r := range fr.modRefs {
		ors = append(ors, "(= "+ref+" "+r+")")
	}
	if len(ors) == 1 {
		return ors[0]
	}
	return "(or " + strings.Join(ors, " ") + ")"
}

// mutatorCall: sort.* and friends permute the elements of their slice argument.
func (e *Enc) mutatorCall(fr *Frame, st *State, c *ssa.Call, callee *ssa.Function, args []string) *State {
	cc := c.Common()
	pre := st
	e.comparatorIndexesSortedSlice(fr, st, c, callee)
	st = e.havocCall(fr, st, c, false)
	for i, a := range cc.Args {
		switch u := a.Type().Underlying().(type) {
		case *types.Slice:
			ref := "(sarr " + args[i] + ")"
			e.frameOb(fr, c.Pos(), e.exprText(c.Pos(), "call"), ref, "(= (slen "+args[i]+") 0)")
			h := e.elemHeap(u.Elem())
			e.n++
			fn := fmt.Sprintf("HM%d_%s", e.n, h)
			e.declHeapFn(fn, h)
			ns := e.newState(sFill, st)
			ns.heap, ns.loc, ns.fn = h, Loc{ref}, fn
			st = ns
		case *types.Interface:
			// sort.Sort(x): x's dynamic value is one of our named slice types; the elements of that slice are permuted
			if mi, ok := a.(*ssa.MakeInterface); ok {
				if su, ok := mi.X.Type().Underlying().(*types.Slice); ok {
					sv := e.val(fr, mi.X)
					ref := "(sarr " + sv + ")"
					e.frameOb(fr, c.Pos(), e.exprText(c.Pos(), "call"), ref, "(= (slen "+sv+") 0)")
					h := e.elemHeap(su.Elem())
					e.n++
					fn := fmt.Sprintf("HM%d_%s", e.n, h)
					e.declHeapFn(fn, h)
					ns := e.newState(sFill, st)
					ns.heap, ns.loc, ns.fn = h, Loc{ref}, fn
					st = ns
					continue
				}
			}
			// sort.Sort(x) on a value whose Swap method is under contract: sort writes exactly what Swap may write
			if mi, ok := a.(*ssa.MakeInterface); ok {
				if done, ns := e.sortViaSwapContract(fr, st, c, mi); done {
					st = ns
					continue
				}
			}
			hs := e.newState(sHavoc, st)
			hs.heap = "*"
			e.n++
			hs.id = e.n
			st = hs
			e.addOb(fr, "FRAME", "store", c.Pos(), e.exprText(c.Pos(), "call"), "false", false)
		}
	}
	_ = pre
	return st
}

// ---- loops ---------------------------------------------------------------------

type invCand struct {
	id    int
	name  string
	text  string
	tags  []string
	eval  func(st *State, phiVal func(*ssa.Phi) string) (string, error)
	auto  bool
}

func (e *Enc) loopCands(fr *Frame, li *loopInfo) []*invCand {
	if li.cands != nil {
		return li.cands
	}
	li.cands = []*invCand{}
	ct := fr.contract
	if ct != nil && !fr.inl {
		for _, cl := range ct.LoopInv[li.ord] {
			cl := cl
			c := &invCand{name: fmt.Sprintf("loop %d invariant %s", li.ord, cl.Text), text: cl.Text, tags: cl.Tags}
			c.eval = func(st *State, phiVal func(*ssa.Phi) string) (string, error) {
				env := e.loopEnv(fr, li, st, phiVal)
				return env.formula(cl.Text)
			}
			li.cands = append(li.cands, c)
		}
	}
	// range-over-slice loops: the index stays below the length
	if ifi, ok := li.head.Instrs[len(li.head.Instrs)-1].(*ssa.If); ok {
		if cmp, ok := ifi.Cond.(*ssa.BinOp); ok && cmp.Op.String() == "<" {
			if inc, ok := cmp.X.(*ssa.BinOp); ok && inc.Op.String() == "+" {
				if ph, ok := inc.X.(*ssa.Phi); ok && ph.Comment == "rangeindex" && ph.Block() == li.head {
					bound := cmp.Y
					e.n++
					c := &invCand{id: e.n, auto: true, name: fmt.Sprintf("loop %d auto rangeindex<len", li.ord)}
					c.eval = func(st *State, phiVal func(*ssa.Phi) string) (string, error) {
						b, ok := fr.vals[bound]
						if !ok {
							if cst, isC := bound.(*ssa.Const); isC {
								b = e.constVal(cst)
							} else {
								return "", fmt.Errorf("no bound")
							}
						}
						return "(< " + phiVal(ph) + " " + b + ")", nil
					}
					li.cands = append(li.cands, c)
				}
			}
		}
	}
	// map ranges: a ghost counter of completed iterations (= number of visited keys, hence below the map's
	// length while the iterator yields another key); an integer variable that counts the iterations
	// (`i := 0; for k := range m { s[i] = k; i++ }`) equals it
	if li.isMapRange && li.iter == "" {
		li.iter = e.freshConst(fr.pfx+"iter", "Int")
		for _, in := range li.head.Instrs {
			ph, ok := in.(*ssa.Phi)
			if !ok {
				break
			}
			if !isInteger(ph.Type()) || ph.Comment == "rangeindex" {
				continue
			}
			ph2 := ph; ph = ph2
			e.n++
			c := &invCand{id: e.n, auto: true, name: fmt.Sprintf("loop %d auto counts-iterations(%s)", li.ord, phiName(ph))}
			c.eval = func(st *State, phiVal func(*ssa.Phi) string) (string, error) {
				switch li.point {
				case "entry":
					return "(= " + phiVal(ph) + " 0)", nil
				case "back":
					return "(= " + phiVal(ph) + " (+ " + li.iter + " 1))", nil
				}
				return "(= " + phiVal(ph) + " " + li.iter + ")", nil
			}
			li.cands = append(li.cands, c)
		}
	}
	// automatic candidates (kept only if inductive: Houdini)
	for _, in := range li.head.Instrs {
		ph, ok := in.(*ssa.Phi)
		if !ok {
			break
		}
		switch ph.Type().Underlying().(type) {
		case *types.Slice:
			if fr.inl {
				continue
			}
			e.n++
			c := &invCand{id: e.n, auto: true, name: fmt.Sprintf("loop %d auto owned(%s)", li.ord, phiName(ph))}
			c.eval = func(st *State, phiVal func(*ssa.Phi) string) (string, error) {
				v := phiVal(ph)
				return fmt.Sprintf("(or (= (sarr %s) 0) (>= (sarr %s) %s))", v, v, fr.a0), nil
			}
			li.cands = append(li.cands, c)
		case *types.Basic:
			if isInteger(ph.Type()) && ph.Comment != "rangeindex" {
				e.n++
				c := &invCand{id: e.n, auto: true, name: fmt.Sprintf("loop %d auto nonneg(%s)", li.ord, phiName(ph))}
				c.eval = func(st *State, phiVal func(*ssa.Phi) string) (string, error) {
					return "(>= " + phiVal(ph) + " 0)", nil
				}
				li.cands = append(li.cands, c)
			}
		case *types.Map, *types.Pointer:
			if fr.inl {
				continue
			}
			e.n++
			c := &invCand{id: e.n, auto: true, name: fmt.Sprintf("loop %d auto owned(%s)", li.ord, phiName(ph))}
			c.eval = func(st *State, phiVal func(*ssa.Phi) string) (string, error) {
				v := phiVal(ph)
				return fmt.Sprintf("(or (= %s 0) (>= %s %s))", v, v, fr.a0), nil
			}
			li.cands = append(li.cands, c)
		}
	}
	// heap-resident containers of local objects: owned(load(alloc.field))
	if !fr.inl {
		ncand := 0
		// only objects the loop body stores to need an ownership invariant (the others keep their contents)
		writtenIn := map[ssa.Value]bool{}
		for b := range li.body {
			for _, in := range b.Instrs {
				if st, ok := in.(*ssa.Store); ok {
					if r := rootAllocOf(st.Addr); r != nil {
						writtenIn[r] = true
					}
				}
			}
		}
		for _, b := range fr.fn.Blocks {
			if b == li.head || !b.Dominates(li.head) {
				continue
			}
			for _, in := range b.Instrs {
				al, ok := in.(*ssa.Alloc)
				if !ok || !writtenIn[al] {
					continue
				}
				ref, ok := fr.vals[al]
				if !ok {
					continue
				}
				el := al.Type().Underlying().(*types.Pointer).Elem()
				var addrs []*Addr
				var names []string
				switch u := el.Underlying().(type) {
				case *types.Slice, *types.Map, *types.Pointer:
					addrs = append(addrs, e.addrOfRef(ref, el))
					names = append(names, al.Comment)
				case *types.Struct:
					for i := 0; i < u.NumFields(); i++ {
						switch u.Field(i).Type().Underlying().(type) {
						case *types.Slice, *types.Map, *types.Pointer:
							addrs = append(addrs, &Addr{heap: e.fieldHeap(el, u, i), loc: Loc{ref}, typ: u.Field(i).Type()})
							names = append(names, al.Comment+"."+u.Field(i).Name())
						}
					}
				}
				for i, a := range addrs {
					if ncand >= 40 {
						break
					}
					ncand++
					a := a
					e.n++
					c := &invCand{id: e.n, auto: true, name: fmt.Sprintf("loop %d auto owned(%s)", li.ord, names[i])}
					c.eval = func(st *State, phiVal func(*ssa.Phi) string) (string, error) {
						v := e.load(fr, st, a)
						if e.d.sortOf(a.typ) == "Slice" {
							return fmt.Sprintf("(or (= (sarr %s) 0) (>= (sarr %s) %s))", v, v, fr.a0), nil
						}
						return fmt.Sprintf("(or (= %s 0) (>= %s %s))", v, v, fr.a0), nil
					}
					li.cands = append(li.cands, c)
				}
			}
		}
	}
	if !fr.inl && (fr.contract != nil || fr.fn.Name() == "Copy") {
		// quantified element-wise candidates are only worth their solver time where a contract can use them
		e.elementTemplates(fr, li)
	}
	return li.cands
}

// headValue re-evaluates, in state st at the loop head, a value the loop body recomputes each iteration
// (a load of a field of an object that exists before the loop), or returns a value defined before the loop.
func (e *Enc) headValue(fr *Frame, li *loopInfo, v ssa.Value, st *State) (string, bool) {
	switch v.(type) {
	case *ssa.Parameter, *ssa.FreeVar, *ssa.Global, *ssa.Const:
		return e.val(fr, v), true
	}
	if in, ok := v.(ssa.Instruction); ok && in.Block() != nil && !li.body[in.Block()] && in.Block().Dominates(li.head) {
		if t, ok := fr.vals[v]; ok {
			return t, true
		}
		return "", false
	}
	if u, ok := v.(*ssa.UnOp); ok && u.Op.String() == "*" {
		if fa, ok := u.X.(*ssa.FieldAddr); ok {
			base, ok := e.headValue(fr, li, fa.X, st)
			if !ok {
				return "", false
			}
			t, s, ok := derefStruct(fa.X.Type())
			if !ok {
				return "", false
			}
			h := e.fieldHeap(t, s, fa.Field)
			return e.sel(e.view(st, h), h, Loc{base}), true
		}
	}
	return "", false
}

func isStructPtr(t types.Type) bool {
	p, ok := t.Underlying().(*types.Pointer)
	if !ok {
		return false
	}
	_, ok = p.Elem().Underlying().(*types.Struct)
	return ok
}

// elementTemplates: candidate invariants for the canonical element-wise loops
// (dst[i] = f(src[i]);  dst[k] = f(v) for k, v := range src). Kept only if inductive (Houdini).
func (e *Enc) elementTemplates(fr *Frame, li *loopInfo) {
	var rangeIdx *ssa.Phi
	for _, in := range li.head.Instrs {
		if ph, ok := in.(*ssa.Phi); ok && ph.Comment == "rangeindex" {
			rangeIdx = ph
		}
	}
	var blocks []*ssa.BasicBlock
	for _, b := range fr.fn.Blocks {
		if li.body[b] {
			blocks = append(blocks, b)
		}
	}
	n := 0
	for _, b := range blocks {
		for _, in := range b.Instrs {
			if n >= 12 {
				return
			}
			switch x := in.(type) {
			case *ssa.Store:
				ia, ok := x.Addr.(*ssa.IndexAddr)
				if ok && !isStructPtr(x.Val.Type()) {
					// dst[i] = src[i] (element-wise copy of values): everything below the index is equal
					if ld, isLoad := x.Val.(*ssa.UnOp); isLoad && ld.Op.String() == "*" {
						if sa, isIdx := ld.X.(*ssa.IndexAddr); isIdx && sa.Index == ia.Index {
							dsl, ok1 := ia.X.Type().Underlying().(*types.Slice)
							ssl, ok2 := sa.X.Type().Underlying().(*types.Slice)
							var bound func(phiVal func(*ssa.Phi) string) string
							if bo, ok := ia.Index.(*ssa.BinOp); ok && rangeIdx != nil && bo.X == ssa.Value(rangeIdx) && isConst(bo.Y) {
								bound = func(pv func(*ssa.Phi) string) string { return "(+ " + pv(rangeIdx) + " 1)" }
							} else if ph, ok := ia.Index.(*ssa.Phi); ok && ph.Block() == li.head {
								bound = func(pv func(*ssa.Phi) string) string { return pv(ph) }
							}
							if ok1 && ok2 && bound != nil && types.Identical(dsl.Elem(), ssl.Elem()) {
								n++
								D, S := ia.X, sa.X
								h := e.elemHeap(dsl.Elem())
								e.n++
								c := &invCand{id: e.n, auto: true, name: fmt.Sprintf("loop %d auto elems-equal(%s)", li.ord, e.exprText(x.Pos(), "assign", "index"))}
								c.eval = func(st *State, pv func(*ssa.Phi) string) (string, error) {
									ds, ok := e.headValue(fr, li, D, st)
									ss, ok2 := e.headValue(fr, li, S, st)
									if !ok || !ok2 {
										return "", fmt.Errorf("no head value")
									}
									q := e.fresh("q_j")
									e.quant++
									del := e.sel(e.view(st, h), h, Loc{"(sarr " + ds + ")", "(+ (soff " + ds + ") " + q + ")"})
									sel := e.sel(e.view(st, h), h, Loc{"(sarr " + ss + ")", "(+ (soff " + ss + ") " + q + ")"})
									e.quant--
									return fmt.Sprintf("(forall ((%s Int)) (=> (and (<= 0 %s) (< %s %s)) (= %s %s)))", q, q, q, bound(pv), del, sel), nil
								}
								li.cands = append(li.cands, c)
							}
						}
					}
				}
				if !ok || !isStructPtr(x.Val.Type()) {
					continue
				}
				sl, ok := ia.X.Type().Underlying().(*types.Slice)
				if !ok {
					continue
				}
				// index must be rangeindex+1 or a counting phi of this head
				var bound func(phiVal func(*ssa.Phi) string) string
				if bo, ok := ia.Index.(*ssa.BinOp); ok && rangeIdx != nil && bo.X == ssa.Value(rangeIdx) && isConst(bo.Y) {
					bound = func(pv func(*ssa.Phi) string) string { return "(+ " + pv(rangeIdx) + " 1)" }
				} else if ph, ok := ia.Index.(*ssa.Phi); ok && ph.Block() == li.head {
					bound = func(pv func(*ssa.Phi) string) string { return pv(ph) }
				} else {
					continue
				}
				n++
				X := ia.X
				h := e.elemHeap(sl.Elem())
				e.n++
				c := &invCand{id: e.n, auto: true, name: fmt.Sprintf("loop %d auto elems-owned(%s)", li.ord, e.exprText(x.Pos(), "assign", "index"))}
				c.eval = func(st *State, pv func(*ssa.Phi) string) (string, error) {
					xs, ok := e.headValue(fr, li, X, st)
					if !ok {
						return "", fmt.Errorf("no head value")
					}
					q := e.fresh("q_j")
					e.quant++
					el := e.sel(e.view(st, h), h, Loc{"(sarr " + xs + ")", "(+ (soff " + xs + ") " + q + ")"})
					e.quant--
					return fmt.Sprintf("(forall ((%s Int)) (=> (and (<= 0 %s) (< %s %s)) (or (= %s 0) (>= %s %s))))", q, q, q, bound(pv), el, el, fr.a0), nil
				}
				li.cands = append(li.cands, c)
			case *ssa.MapUpdate:
				mt, ok := x.Map.Type().Underlying().(*types.Map)
				if !ok {
					continue
				}
				M := x.Map
				d, vh, _ := e.mapHeaps(mt)
				if isStructPtr(mt.Elem()) {
					n++
					e.n++
					c := &invCand{id: e.n, auto: true, name: fmt.Sprintf("loop %d auto mapelems-owned(%s)", li.ord, e.exprText(x.Pos(), "assign", "index"))}
					c.eval = func(st *State, pv func(*ssa.Phi) string) (string, error) {
						ms, ok := e.headValue(fr, li, M, st)
						if !ok {
							return "", fmt.Errorf("no head value")
						}
						q := e.fresh("q_k")
						e.quant++
						in := e.sel(e.view(st, d), d, Loc{ms, q})
						el := e.sel(e.view(st, vh), vh, Loc{ms, q})
						e.quant--
						return fmt.Sprintf("(forall ((%s %s)) (=> %s (or (= %s 0) (>= %s %s))))", q, e.d.sortOf(mt.Key()), in, el, el, fr.a0), nil
					}
					li.cands = append(li.cands, c)
				}
				// keys of the destination come from the ranged source map
				if ex, ok := x.Key.(*ssa.Extract); ok && ex.Index == 1 {
					if nx, ok := ex.Tuple.(*ssa.Next); ok && nx.Block() == li.head {
						if rg, ok := nx.Iter.(*ssa.Range); ok {
							if smt, ok := rg.X.Type().Underlying().(*types.Map); ok && types.Identical(smt.Key(), mt.Key()) {
								n++
								S := rg.X
								sd, _, _ := e.mapHeaps(smt)
								e.n++
								c := &invCand{id: e.n, auto: true, name: fmt.Sprintf("loop %d auto keys-from-source(%s)", li.ord, e.exprText(x.Pos(), "assign", "index"))}
								c.eval = func(st *State, pv func(*ssa.Phi) string) (string, error) {
									ms, ok := e.headValue(fr, li, M, st)
									if !ok {
										return "", fmt.Errorf("no head value")
									}
									ss, ok := e.headValue(fr, li, S, st)
									if !ok {
										return "", fmt.Errorf("no head value")
									}
									q := e.fresh("q_k")
									e.quant++
									in := e.sel(e.view(st, d), d, Loc{ms, q})
									sin := e.sel(e.view(st, sd), sd, Loc{ss, q})
									e.quant--
									return fmt.Sprintf("(forall ((%s %s)) (=> %s (and (not (= %s 0)) %s)))", q, e.d.sortOf(mt.Key()), in, ss, sin), nil
								}
								li.cands = append(li.cands, c)
							}
						}
					}
				}
			}
		}
	}
}

func phiName(p *ssa.Phi) string {
	if p.Comment != "" {
		return p.Comment
	}
	return p.Name()
}

func (e *Enc) flagOf(c *invCand) string {
	if !c.auto {
		return ""
	}
	f := fmt.Sprintf("hd_%d", c.id)
	if !e.d.seen[f] {
		e.d.decl(f, "() Bool")
		e.flags = append(e.flags, f)
		e.flagInfo[c.id] = c.name
	}
	return f
}

func (e *Enc) loopEntryObs(fr *Frame, li *loopInfo, conds []string, preds []*State) {
	var entryPreds []*ssa.BasicBlock
	for _, p := range li.head.Preds {
		if !isBackEdge(p, li.head) {
			if _, done := fr.out[p]; done {
				entryPreds = append(entryPreds, p)
			}
		}
	}
	save := e.cur
	for _, c := range e.loopCands(fr, li) {
		for i, p := range entryPreds {
			if i >= len(preds) {
				break
			}
			pi := predIndex(li.head, p)
			li.point = "entry"
			f, err := c.eval(preds[i], func(ph *ssa.Phi) string { return e.val(fr, ph.Edges[pi]) })
			if err != nil {
				if !c.auto {
					e.bindErrs = append(e.bindErrs, fmt.Sprintf("%s: %s: %v", shortName(fr.fn), c.name, err))
				}
				continue
			}
			e.cur = conds[i]
			o := e.addOb(fr, "LOOP", "entry", loopPos(li.head), c.name, f, false)
			o.houdini = c.id
			o.tags = c.tags
		}
	}
	e.cur = save
}

func predIndex(b, p *ssa.BasicBlock) int {
	for i, x := range b.Preds {
		if x == p {
			return i
		}
	}
	return -1
}

func (e *Enc) loopAssume(fr *Frame, li *loopInfo, st *State) {
	// built-in facts
	for _, in := range li.head.Instrs {
		ph, ok := in.(*ssa.Phi)
		if !ok {
			break
		}
		if ph.Comment == "rangeindex" {
			e.assumeG("(>= " + fr.vals[ph] + " (- 1))")
		}
	}
	if li.iter != "" {
		e.assumeG("(>= " + li.iter + " 0)")
	}
	for _, c := range e.loopCands(fr, li) {
		li.point = "head"
		f, err := c.eval(st, func(ph *ssa.Phi) string { return fr.vals[ph] })
		if err != nil {
			continue
		}
		if fl := e.flagOf(c); fl != "" {
			e.assumeG("(=> " + fl + " " + f + ")")
		} else {
			e.assumeG(f)
		}
	}
}

func (e *Enc) loopBack(fr *Frame, li *loopInfo, from *ssa.BasicBlock, st *State) {
	pi := predIndex(li.head, from)
	save := e.cur
	e.cur = e.edgeCond(fr, from, li.head)
	if !fr.inl {
		// vacuity canary: some back edge of every loop must be reachable under the assumed invariants
		// (one probe per back edge; the loop body is vacuous only if none is reachable)
		e.addOb(fr, "VAC", "loopbody", loopPos(li.head), fmt.Sprintf("loop %d back edge", li.ord), "false", false)
	}
	for _, c := range e.loopCands(fr, li) {
		li.point = "back"
		f, err := c.eval(st, func(ph *ssa.Phi) string { return e.val(fr, ph.Edges[pi]) })
		if err != nil {
			continue
		}
		o := e.addOb(fr, "LOOP", "preserve", loopPos(li.head), c.name, f, false)
		o.houdini = c.id
		o.tags = c.tags
	}
	// termination measure: non-negative at the head and strictly smaller at every back edge
	if ct := fr.contract; ct != nil && !fr.inl && ct.LoopDec[li.ord] != "" {
		li.point = "back"
		env := e.loopEnv(fr, li, st, func(ph *ssa.Phi) string { return e.val(fr, ph.Edges[pi]) })
		e.bodyVars(fr, li, from, st, env.vars)
		li.point = "head"
		henv := e.loopEnv(fr, li, li.state, func(ph *ssa.Phi) string { return fr.vals[ph] })
		nv, err1 := env.term(ct.LoopDec[li.ord])
		ov, err2 := henv.term(ct.LoopDec[li.ord])
		if err1 != nil || err2 != nil {
			e.bindErrs = append(e.bindErrs, fmt.Sprintf("%s: loop %d decreases: %v %v", ct.Key, li.ord, err1, err2))
		} else {
			e.addOb(fr, "TERM", "decreases", loopPos(li.head), fmt.Sprintf("loop %d decreases %s", li.ord, ct.LoopDec[li.ord]), fmt.Sprintf("(and (>= %s 0) (< %s %s))", ov.t, nv.t, ov.t), false)
		}
	}
	// per-iteration contracts: relate the state at the loop head (old) to the state at this back edge
	if ct := fr.contract; ct != nil && !fr.inl {
		for _, cl := range ct.IterEns[li.ord] {
			li.point = "back"
			env := e.loopEnv(fr, li, st, func(ph *ssa.Phi) string { return e.val(fr, ph.Edges[pi]) })
			li.point = "head"
			henv := e.loopEnv(fr, li, li.state, func(ph *ssa.Phi) string { return fr.vals[ph] })
			// variables defined inside the body are visible too (their value in this iteration)
			e.bodyVars(fr, li, from, st, env.vars)
			env.old = li.state
			env.oldVars = henv.vars
			env.errs = nil
			f, err := env.formula(cl.Text)
			if err != nil {
				e.bindErr(ct, cl, err)
				continue
			}
			o := e.addOb(fr, "POST", "iter", loopPos(li.head), fmt.Sprintf("loop %d iter %s", li.ord, cl.Text), f, false)
			o.tags = cl.Tags
		}
	}
	e.cur = save
}

// loopEnv resolves identifiers of a loop invariant at the loop head.
func (e *Enc) loopEnv(fr *Frame, li *loopInfo, st *State, phiVal func(*ssa.Phi) string) *ExprEnv {
	vars := map[string]tval{}
	for i, n := range paramNames(fr.fn, fr.contract) {
		vars[n] = tval{t: fr.vals[fr.fn.Params[i]], typ: fr.fn.Params[i].Type()}
	}
	for _, fv := range fr.fn.FreeVars {
		// captured variable: its current value
		if pt, ok := fv.Type().Underlying().(*types.Pointer); ok {
			a := e.addrOfRef(e.val(fr, fv), pt.Elem())
			vars[fv.Name()] = tval{t: e.load(fr, st, a), typ: pt.Elem()}
		}
	}
	e.debugVars(fr, li.head, st, vars)
	for _, in := range li.head.Instrs {
		ph, ok := in.(*ssa.Phi)
		if !ok {
			break
		}
		if ph.Comment != "" {
			vars[ph.Comment] = tval{t: phiVal(ph), typ: ph.Type()}
		}
	}
	if li.iter != "" {
		vars["iter"] = tval{t: li.iter, typ: types.Typ[types.Int]}
	}
	env := &ExprEnv{e: e, fr: fr, vars: vars, st: st, old: fr.entry, a0: fr.a0, pkg: pkgOf(fr.fn)}
	if li.vis != "" {
		switch li.point {
		case "entry":
			env.visited = func(k string) string { return "false" }
		case "back":
			env.visited = func(k string) string { return "(or (" + li.vis + " " + k + ") (= " + k + " " + li.visKey + "))" }
		default:
			env.visited = func(k string) string { return "(" + li.vis + " " + k + ")" }
		}
	}
	return env
}

// bodyVars: source variables assigned inside the loop body, as seen at the end of block at.
func (e *Enc) bodyVars(fr *Frame, li *loopInfo, at *ssa.BasicBlock, st *State, vars map[string]tval) {
	type cand struct {
		v   ssa.Value
		pos token.Pos
	}
	best := map[string]cand{}
	for _, b := range fr.fn.Blocks {
		if !li.body[b] || !(b == at || b.Dominates(at)) {
			continue
		}
		for _, in := range b.Instrs {
			d, ok := in.(*ssa.DebugRef)
			if !ok || d.Object() == nil || d.IsAddr {
				continue
			}
			if _, isVar := d.Object().(*types.Var); !isVar {
				continue
			}
			if _, known := fr.vals[d.X]; !known {
				continue
			}
			n := d.Object().Name()
			if old, ok := best[n]; !ok || d.Pos() > old.pos {
				best[n] = cand{d.X, d.Pos()}
			}
		}
	}
	for n, c := range best {
		if _, ok := vars[n]; ok {
			continue
		}
		vars[n] = tval{t: fr.vals[c.v], typ: c.v.Type()}
	}
}

// debugVars binds source variables visible at the end of block at: walking up the dominator tree, the
// nearest DebugRef (definition or use: both carry the variable's current value) or loop phi named like
// the variable wins.
func (e *Enc) debugVars(fr *Frame, at *ssa.BasicBlock, st *State, vars map[string]tval) {
	found := map[string]bool{}
	// variables that live in memory (address taken or captured): always the current content of their cell.
	// If several variables share a name, the declaration nearest before `at` in source order wins.
	type cellCand struct {
		a   *Addr
		typ types.Type
		pos token.Pos
	}
	cells := map[string]cellCand{}
	tempComment := map[string]bool{"": true, "complit": true, "varargs": true, "makeslice": true, "slicelit": true, "arraylit": true, "new": true}
	for _, b := range fr.fn.Blocks {
		if !(b == at || b.Dominates(at)) {
			continue
		}
		for _, in := range b.Instrs {
			al, ok := in.(*ssa.Alloc)
			if !ok || tempComment[al.Comment] || strings.ContainsAny(al.Comment, " .()") {
				continue
			}
			ref, ok := fr.vals[al]
			if !ok {
				continue
			}
			// parameters spilled to memory keep their parameter binding; named variables are read from their cell
			el := al.Type().Underlying().(*types.Pointer).Elem()
			c := cellCand{e.addrOfRef(ref, el), el, al.Pos()}
			if old, ok := cells[al.Comment]; !ok || c.pos > old.pos {
				cells[al.Comment] = c
			}
		}
	}
	// value variables: walking up the dominator tree, the nearest DebugRef (definition or use: both carry
	// the variable's current value) or loop phi named like the variable
	type valCand struct {
		v   tval
		pos token.Pos // declaration position of the variable object
	}
	vals := map[string]valCand{}
	for b := at; b != nil; b = b.Idom() {
		local := map[string]valCand{}
		for _, in := range b.Instrs {
			switch d := in.(type) {
			case *ssa.Phi:
				if d.Comment != "" {
					if t, ok := fr.vals[d]; ok {
						local[d.Comment] = valCand{tval{t: t, typ: d.Type()}, d.Pos()}
					}
				}
			case *ssa.DebugRef:
				if d.Object() == nil || d.IsAddr {
					continue
				}
				if _, isVar := d.Object().(*types.Var); !isVar {
					continue
				}
				n := d.Object().Name()
				if t, ok := fr.vals[d.X]; ok {
					local[n] = valCand{tval{t: t, typ: d.X.Type()}, d.Object().Pos()}
				} else if c, ok := d.X.(*ssa.Const); ok {
					local[n] = valCand{tval{t: e.constVal(c), typ: c.Type()}, d.Object().Pos()}
				}
			}
		}
		for n, v := range local {
			if !found[n] {
				found[n] = true
				vals[n] = v
			}
		}
	}
	// shadowing: between a memory-resident variable and a value variable of the same name, the one
	// declared later in the source is the one in scope at a point both reach
	names := map[string]bool{}
	for n := range cells {
		names[n] = true
	}
	for n := range vals {
		names[n] = true
	}
	for n := range names {
		if _, ok := vars[n]; ok {
			continue
		}
		c, hasC := cells[n]
		v, hasV := vals[n]
		switch {
		case hasC && (!hasV || c.pos >= v.pos):
			vars[n] = tval{typ: c.typ, cell: c.a}
		case hasV:
			vars[n] = v.v
		}
	}
}

// ---- top-level verification of one function ---------------------------------------------------------------------

func (e *Enc) verifyFunc() {
	f := e.top
	fr := e.newFrame(f, "", false, 0)
	e.topFrame = fr
	fr.a0 = "A0"
	fr.contract = e.spec.contractFor(f)
	st := e.newState(sInit, nil)
	st.nxt = "A0"
	for _, p := range f.Params {
		n := "p_" + san(p.Name())
		if e.d.seen[n] {
			n = e.fresh(n)
		}
		e.d.decl(n, "() "+e.d.sortOf(p.Type()))
		fr.vals[p] = n
		e.typeFacts(p.Type(), n, false)
		e.older(p.Type(), n, "A0", 0)
		e.markOld(p.Type(), n)
	}
	for _, fv := range f.FreeVars {
		n := "fv_" + san(fv.Name())
		e.d.decl(n, "() Int")
		fr.vals[fv] = n
		e.assume("(and (> " + n + " 0) (< " + n + " A0))")
		e.oldTerms[n] = true
	}
	// implicit: pointer receivers are non-nil unless the method tests its receiver against nil
	if implicitRecvNonNil(f) {
		e.assume("(not (= " + fr.vals[f.Params[0]] + " 0))")
	}
	vars := map[string]tval{}
	for i, n := range paramNames(f, fr.contract) {
		vars[n] = tval{t: fr.vals[f.Params[i]], typ: f.Params[i].Type()}
	}
	e.bindFreeVars(fr, st, vars)
	e.structuralBindCheck(fr)
	pre := &ExprEnv{e: e, fr: fr, vars: vars, st: st, old: st, a0: "A0", pkg: pkgOf(f)}
	ct := fr.contract
	if ct == nil {
		ct = e.ifaceContractFor(f)
		if ct != nil {
			fr.contract = ct
			if len(f.Params) > 0 {
				vars["self"] = tval{t: fr.vals[f.Params[0]], typ: f.Params[0].Type()}
				for i := 1; i < len(f.Params); i++ {
					if i-1 < len(ct.Params) {
						vars[ct.Params[i-1]] = tval{t: fr.vals[f.Params[i]], typ: f.Params[i].Type()}
					}
				}
			}
		}
	}
	if ct != nil {
		for _, r := range ct.Requires {
			pre.errs = nil
			fm, err := pre.formula(r.Text)
			if err != nil {
				e.bindErr(ct, r, err)
				continue
			}
			e.assume(fm)
			e.requires = append(e.requires, fm)
		}
		for _, mt := range e.modTargets(pre, ct) {
			fr.modRefs = append(fr.modRefs, mt.ref)
			e.writesOld = true
		}
	}
	e.encodeBody(fr, st, "true")
	// postconditions
	if ct != nil {
		rn := resultNames(f.Signature, ct)
		for ri, r := range fr.rets {
			e.cur = r.reach
			pv := map[string]tval{}
			for k, v := range vars {
				pv[k] = v
			}
			for i, n := range rn {
				if i < len(r.vals) {
					pv[n] = tval{t: r.vals[i], typ: f.Signature.Results().At(i).Type()}
				}
			}
			e.bindFreeVars(fr, r.st, pv)
			e.debugVars(fr, r.instr.Block(), r.st, pv)
			post := &ExprEnv{e: e, fr: fr, vars: pv, st: r.st, old: st, a0: "A0", pkg: pkgOf(f), at: r.instr.Block()}
			for _, cl := range ct.Ensures {
				post.errs = nil
				fm, err := post.formula(cl.Text)
				if err != nil {
					e.bindErr(ct, cl, err)
					continue
				}
				fam := "POST"
				if cl.Family != "" {
					fam = cl.Family
				}
				o := e.addOb(fr, fam, "ensures", r.instr.Pos(), cl.Text+" @return "+e.retText(r.instr, ri), fm, false)
				o.tags = cl.Tags
				o.clause = cl.Name
			}
		}
	}
	// loops declared complete: the only way out is the exhausted range (dataflow on the control-flow graph)
	{
		lc := map[int][]string{}
		if ct != nil && !ct.IsIface {
			for n, tags := range ct.LoopComplete {
				lc[n] = tags
			}
		}
		for n, tags := range e.spec.loopComplete[shortName(f)] {
			lc[n] = tags
		}
		for n, tags := range lc {
			for h, li := range fr.loops {
				if li.ord != n {
					continue
				}
				early := ""
				for b := range li.body {
					for _, sb := range b.Succs {
						if !li.body[sb] && b != h {
							early = e.w.prog.Fset.Position(b.Instrs[len(b.Instrs)-1].Pos()).String()
						}
					}
					if len(b.Succs) == 0 {
						early = e.w.prog.Fset.Position(b.Instrs[len(b.Instrs)-1].Pos()).String()
					}
				}
				cond := "true"
				if early != "" {
					cond = "false"
				}
				e.cur = "true"
				o := e.addOb(fr, "POST", "complete", loopPos(h), fmt.Sprintf("loop %d is left only when its range is exhausted", n), cond, false)
				o.tags = tags
				if li.isMapRange {
					// leaving a map range early makes the result depend on the iteration order (C03)
					o.tags = append(append([]string{}, tags...), "C03")
				}
				if early != "" {
					o.Output = "left early at " + shortPath(early)
				}
			}
		}
	}
	// vacuity canaries: every return must be reachable under the assumptions
	for ri, r := range fr.rets {
		e.cur = r.reach
		o := e.addOb(fr, "VAC", "reach", r.instr.Pos(), "return "+e.retText(r.instr, ri), "false", false)
		_ = o
	}
	e.cur = "true"
}

func (e *Enc) retText(r *ssa.Return, i int) string {
	t := e.exprText(r.Pos(), "return")
	if t == "" {
		t = fmt.Sprintf("#%d", i)
	}
	return t
}

func (e *Enc) markOld(t types.Type, term string) {
	switch t.Underlying().(type) {
	case *types.Pointer, *types.Map, *types.Signature, *types.Chan:
		e.oldTerms[term] = true
	case *types.Slice:
		e.oldTerms["(sarr "+term+")"] = true
	}
}

// bindFreeVars: inside a closure a captured variable is named by its source name; its value is the
// content of the captured cell in the given state.
func (e *Enc) bindFreeVars(fr *Frame, st *State, vars map[string]tval) {
	for _, fv := range fr.fn.FreeVars {
		pt, ok := fv.Type().Underlying().(*types.Pointer)
		if !ok {
			continue
		}
		a := e.addrOfRef(fr.vals[fv], pt.Elem())
		vars[fv.Name()] = tval{typ: pt.Elem(), cell: a}
	}
}

// implicitRecvNonNil: pointer-receiver methods that never compare their receiver with nil.
func implicitRecvNonNil(f *ssa.Function) bool {
	if f.Signature.Recv() == nil || len(f.Params) == 0 {
		return false
	}
	if _, ok := f.Params[0].Type().Underlying().(*types.Pointer); !ok {
		return false
	}
	for _, r := range *f.Params[0].Referrers() {
		if b, ok := r.(*ssa.BinOp); ok && (b.Op == token.EQL || b.Op == token.NEQ) {
			if isNilConst(b.X) || isNilConst(b.Y) {
				return false
			}
		}
	}
	return true
}

func (e *Enc) ifaceContractFor(f *ssa.Function) *Contract {
	if f.Signature.Recv() == nil {
		return nil
	}
	var keys []string
	for k := range e.spec.ifaces {
		keys = append(keys, k)
	}
	sort.Strings(keys)
	for _, k := range keys {
		i := strings.LastIndex(k, ".")
		if k[i+1:] != f.Name() {
			continue
		}
		it, err := e.spec.parseType(k[:i])
		if err != nil {
			continue
		}
		iface, ok := it.Underlying().(*types.Interface)
		if !ok {
			continue
		}
		if types.Implements(f.Signature.Recv().Type(), iface) {
			return e.spec.ifaces[k]
		}
	}
	return nil
}

// finish adds the closed-world facts that need the complete set of types seen.
func (e *Enc) finish() {
	e.inFinish = true
	defer func() { e.inFinish = false }()
	for _, it := range e.ifaceTypes {
		iface, ok := it.Underlying().(*types.Interface)
		if !ok {
			continue
		}
		n := "impl_" + typeKey(it)
		for _, t := range e.d.tagTypes {
			if _, isI := t.Underlying().(*types.Interface); isI {
				continue
			}
			v := "false"
			if types.Implements(t, iface) {
				v = "true"
			}
			e.assume(fmt.Sprintf("(= (%s %d) %s)", n, e.d.tag(t), v))
		}
	}
	var ufk []string
	for k := range e.ifaceFieldUFs {
		ufk = append(ufk, k)
	}
	sort.Strings(ufk)
	for _, k := range ufk {
		u := e.ifaceFieldUFs[k]
		iface, _ := u.iface.Underlying().(*types.Interface)
		for _, mi := range e.mkIfaces {
			st, ok := mi.typ.Underlying().(*types.Struct)
			if !ok || !types.Implements(mi.typ, iface) {
				continue
			}
			for i := 0; i < st.NumFields(); i++ {
				if st.Field(i).Name() == u.field {
					e.assume("(= (" + u.uf + " " + mi.term + ") " + sel(mi.typ, st, i, mi.val) + ")")
				}
			}
		}
	}
	if e.d.seen["ptrtag"] {
		for _, t := range e.d.tagTypes {
			e.assume(fmt.Sprintf("(= (ptrtag %d) %v)", e.d.tag(t), isPointerShaped(t)))
		}
	}
	// distinct string literals
	if len(e.strConsts) > 0 {
		var ns []string
		for _, n := range e.strConsts {
			ns = append(ns, n)
		}
		sort.Strings(ns)
		ns = append(ns, "str_empty")
		e.assume("(distinct " + strings.Join(ns, " ") + ")")
	}
	var gs []string
	for g := range e.globals {
		gs = append(gs, g)
	}
	sort.Strings(gs)
	if len(gs) > 1 {
		e.assume("(distinct " + strings.Join(gs, " ") + ")")
	}
}

// callOrdinal: the position (1-based, source order) of call c among the static calls of the same callee
// in its function.
func callOrdinal(f *ssa.Function, c *ssa.Call) (string, int) {
	nameOf := func(x *ssa.Call) string {
		if cc := x.Common().StaticCallee(); cc != nil {
			return shortName(cc)
		}
		if x.Common().IsInvoke() {
			return "invoke:" + x.Common().Method.Name()
		}
		return ""
	}
	name := nameOf(c)
	if name == "" {
		return "", 0
	}
	var calls []*ssa.Call
	for _, b := range f.Blocks {
		for _, in := range b.Instrs {
			if x, ok := in.(*ssa.Call); ok && nameOf(x) == name {
				calls = append(calls, x)
			}
		}
	}
	sort.Slice(calls, func(i, j int) bool { return calls[i].Pos() < calls[j].Pos() })
	for i, x := range calls {
		if x == c {
			return name, i + 1
		}
	}
	return name, 0
}

func siteMatches(sc SiteClause, name string, k int) bool {
	return sc.K == k && (sc.Callee == name || strings.HasSuffix(name, "."+sc.Callee) || strings.HasSuffix(name, sc.Callee))
}

func (e *Enc) siteEnv(fr *Frame, at *ssa.BasicBlock, st *State) *ExprEnv {
	vars := map[string]tval{}
	for i, n := range paramNames(fr.fn, fr.contract) {
		vars[n] = tval{t: fr.vals[fr.fn.Params[i]], typ: fr.fn.Params[i].Type()}
	}
	e.bindFreeVars(fr, st, vars)
	e.debugVars(fr, at, st, vars)
	return &ExprEnv{e: e, fr: fr, vars: vars, st: st, old: fr.entry, a0: fr.a0, pkg: pkgOf(fr.fn)}
}

// siteAsserts: assertions attached to this call site (checked just before the call).
func (e *Enc) siteAsserts(fr *Frame, st *State, c *ssa.Call) {
	ct := fr.contract
	if ct == nil || fr.inl || len(ct.Asserts) == 0 {
		return
	}
	name, k := callOrdinal(fr.fn, c)
	for _, sc := range ct.Asserts {
		if !siteMatches(sc, name, k) {
			continue
		}
		env := e.siteEnv(fr, c.Block(), st)
		// arguments of the call are visible as arg0, arg1, ...
		for i, a := range c.Common().Args {
			env.vars[fmt.Sprintf("arg%d", i)] = tval{t: e.val(fr, a), typ: a.Type()}
		}
		f, err := env.formula(sc.Clause.Text)
		if err != nil {
			e.bindErr(ct, sc.Clause, err)
			continue
		}
		o := e.addOb(fr, "POST", "assert", c.Pos(), fmt.Sprintf("before %s#%d: %s", sc.Callee, sc.K, sc.Clause.Text), f, false)
		o.tags = sc.Clause.Tags
		e.assumeG(f)
	}
}

var ghostIdentRe = regexp.MustCompile(`[A-Za-z_][A-Za-z_0-9]*`)

// ghostIsImmediate: the ghost's expression mentions nothing but the call's own result (or is just `true`), so
// it can be defined directly behind the call and be used by assertions later in the same block.
func ghostIsImmediate(text string) bool {
	for _, id := range ghostIdentRe.FindAllString(text, -1) {
		if id != "true" && id != "callresult" {
			return false
		}
	}
	return true
}

// siteGhosts: ghosts are defined at the end of the block that contains their call site (their expression may
// name values computed from the call's results further down the block); only == nil: all of the block's
// remaining ghosts, otherwise the immediate ghosts of that one call.
func (e *Enc) siteGhosts(fr *Frame, b *ssa.BasicBlock, st *State, only ssa.Instruction) {
	ct := fr.contract
	if ct == nil || fr.inl || len(ct.Ghosts) == 0 {
		return
	}
	for _, in := range b.Instrs {
		c, ok := in.(*ssa.Call)
		if !ok || (only != nil && in != only) {
			continue
		}
		name, k := callOrdinal(fr.fn, c)
		for gi, sc := range ct.Ghosts {
			if !siteMatches(sc, name, k) {
				continue
			}
			if only != nil && !ghostIsImmediate(sc.Clause.Text) {
				continue
			}
			if fr.ghostDone == nil {
				fr.ghostDone = map[int]bool{}
			}
			if fr.ghostDone[gi] {
				continue
			}
			fr.ghostDone[gi] = true
			env := e.siteEnv(fr, b, st)
			// the value the call returned (single result) is visible as callresult
			if t, ok := fr.vals[c]; ok && c.Type() != nil {
				if _, isTuple := c.Type().(*types.Tuple); !isTuple {
					env.vars["callresult"] = tval{t: t, typ: c.Type()}
				}
			}
			v, err := env.term(sc.Clause.Text)
			if err != nil {
				e.bindErr(ct, sc.Clause, err)
				continue
			}
			srt := e.d.sortOf(v.typ)
			if srt == "Bool" {
				// a Boolean ghost is false unless its program point is reached
				if g, ok := e.ghostPre[sc.Name]; ok {
					// declared up front (so that clauses evaluated on paths that bypass the site can mention it)
					e.assume("(= " + g + " (and " + e.cur + " " + v.t + "))")
					continue
				}
				g := e.freshConst("ghost_"+san(sc.Name), "Bool")
				e.define(g, "(and "+e.cur+" "+v.t+")")
				e.ghost[sc.Name] = g
				e.ghostType[sc.Name] = types.Typ[types.Bool]
				continue
			}
			// a value ghost records the value at its program point
			g := e.freshConst("ghost_"+san(sc.Name), srt)
			e.define(g, v.t)
			e.ghost[sc.Name] = g
			e.ghostType[sc.Name] = v.typ
		}
	}
}

// sortViaSwapContract: the effect of sort.Sort/Stable(x) is that of calling x.Swap (and x.Less, which is
// read-only by FRAME) repeatedly; with a contract on Swap its modifies clause is the effect.
func (e *Enc) sortViaSwapContract(fr *Frame, st *State, c *ssa.Call, mi *ssa.MakeInterface) (bool, *State) {
	T := mi.X.Type()
	sel := e.w.prog.MethodSets.MethodSet(T).Lookup(nil, "Swap")
	if sel == nil {
		return false, st
	}
	swap := e.w.prog.MethodValue(sel)
	ct := e.spec.contractFor(swap)
	if swap == nil || ct == nil || len(ct.Modifies) == 0 {
		return false, st
	}
	vars := map[string]tval{}
	names := paramNames(swap, ct)
	if len(names) == 0 {
		return false, st
	}
	vars[names[0]] = tval{t: e.val(fr, mi.X), typ: T}
	env := &ExprEnv{e: e, fr: fr, vars: vars, st: st, old: st, a0: fr.a0, pkg: pkgOf(swap)}
	for _, mt := range e.modTargets(env, ct) {
		e.frameOb(fr, c.Pos(), e.exprText(c.Pos(), "call"), mt.ref, "")
		for _, h := range mt.heaps {
			e.n++
			fn := fmt.Sprintf("HM%d_%s", e.n, h)
			e.declHeapFn(fn, h)
			ns := e.newState(sFill, st)
			ns.heap, ns.loc, ns.fn = h, Loc{mt.ref}, fn
			st = ns
		}
	}
	return true, st
}

// comparatorIndexesSortedSlice: for sort.Slice / sort.SliceStable(x, less) with a closure literal, the closure
// body is executed symbolically at the call site for arbitrary indices; every slice it indexes with one of
// its index parameters must be x itself (a comparator reading another slice than the one being permuted
// sorts by stale positions).
func (e *Enc) comparatorIndexesSortedSlice(fr *Frame, st *State, c *ssa.Call, callee *ssa.Function) {
	name := shortName(callee)
	if fr.inl || (name != "sort.Slice" && name != "sort.SliceStable") {
		return
	}
	cc := c.Common()
	mc, ok := cc.Args[1].(*ssa.MakeClosure)
	if !ok {
		return
	}
	xv := unwrapIface(cc.Args[0])
	if _, isSlice := xv.Type().Underlying().(*types.Slice); !isSlice {
		return
	}
	x := e.val(fr, xv)
	fn := mc.Fn.(*ssa.Function)
	if len(fn.Params) != 2 {
		return
	}
	i, j := e.freshConst("cmp_i", "Int"), e.freshConst("cmp_j", "Int")
	e.assume(fmt.Sprintf("(and (<= 0 %s) (< %s (slen %s)) (<= 0 %s) (< %s (slen %s)))", i, i, x, j, j, x))
	var bases []string
	saveCur := e.cur
	e.inlineFnB(fr, st, fn, []string{i, j}, nil, mc, false, func(nf *Frame) { nf.idxBases = &bases })
	e.cur = saveCur
	seen := map[string]bool{}
	for _, b := range bases {
		if seen[b] {
			continue
		}
		seen[b] = true
		cond := fmt.Sprintf("(and (= (sarr %s) (sarr %s)) (= (soff %s) (soff %s)))", b, x, b, x)
		o := e.addOb(fr, "NONDET", "cmp-reads-sorted-slice", c.Pos(), e.exprText(c.Pos(), "call"), cond, b == x)
		o.tags = e.spec.siteTags[shortName(e.top)]
	}
}


// structuralBindCheck: clauses attached to loops or call sites that do not exist (any more) in the function.
func (e *Enc) structuralBindCheck(fr *Frame) {
	ct := fr.contract
	if ct == nil || ct.IsIface {
		return
	}
	nloops := len(fr.loops)
	seen := map[int]bool{}
	chk := func(n int, what string) {
		if n > nloops && !seen[n] {
			seen[n] = true
			e.bindErrs = append(e.bindErrs, fmt.Sprintf("%s: %s of loop %d: unknown identifier (the function has %d loops)", ct.Key, what, n, nloops))
		}
	}
	for n := range ct.LoopInv {
		chk(n, "invariant")
	}
	for n := range ct.IterEns {
		chk(n, "iter clause")
	}
	for n := range ct.LoopDec {
		chk(n, "decreases")
	}
	for n := range ct.LoopComplete {
		chk(n, "completeness clause")
	}
	// call sites
	have := map[string]bool{}
	for _, b := range fr.fn.Blocks {
		for _, in := range b.Instrs {
			if c, ok := in.(*ssa.Call); ok {
				name, k := callOrdinal(fr.fn, c)
				have[fmt.Sprintf("%s#%d", name, k)] = true
			}
		}
	}
	site := func(sc SiteClause, what string) {
		for h := range have {
			i := strings.LastIndex(h, "#")
			var k int
			fmt.Sscanf(h[i+1:], "%d", &k)
			if siteMatches(sc, h[:i], k) {
				return
			}
		}
		e.bindErrs = append(e.bindErrs, fmt.Sprintf("%s: %s at %s#%d: unknown identifier (no such call site)", ct.Key, what, sc.Callee, sc.K))
	}
	for _, sc := range ct.Asserts {
		site(sc, "assert")
	}
	for _, sc := range ct.Ghosts {
		before := len(e.bindErrs)
		site(sc, "ghost")
		if len(e.bindErrs) > before && (strings.TrimSpace(sc.Clause.Text) == "true" || e.spec.boolGhosts[shortName(fr.fn)+"|"+sc.Name]) {
			// a "was this call reached" ghost whose call does not exist: it is never reached
			e.ghost[sc.Name] = "false"
			e.ghostType[sc.Name] = types.Typ[types.Bool]
		} else if len(e.bindErrs) == before && strings.TrimSpace(sc.Clause.Text) == "true" {
			if e.ghostPre == nil {
				e.ghostPre = map[string]string{}
			}
			g := e.freshConst("ghost_"+san(sc.Name), "Bool")
			e.ghostPre[sc.Name] = g
			e.ghost[sc.Name] = g
			e.ghostType[sc.Name] = types.Typ[types.Bool]
		}
	}
}
