package main

import (
	"fmt"
	"go/types"
	"strings"
)

// Decls collects SMT declarations in dependency order.
type Decls struct {
	seen  map[string]bool
	lines []string
	structs map[string]*types.Struct
	tags  map[string]int // dynamic type string -> tag
	tagTypes []types.Type
}

func newDecls() *Decls {
	d := &Decls{seen: map[string]bool{}, tags: map[string]int{}, structs: map[string]*types.Struct{}}
	d.lines = append(d.lines,
		"(declare-sort Str 0)",
		"(declare-sort Flt 0)",
		"(declare-sort Opq 0)",
		"(declare-datatype Slice ((mk_Slice (sarr Int) (soff Int) (slen Int) (scap Int))))",
		"(declare-datatype Iface ((mk_Iface (itag Int) (ival Int))))",
		"(declare-fun strlen (Str) Int)",
		"(declare-const str_empty Str)",
		"(assert (= (strlen str_empty) 0))",
	)
	return d
}

func (d *Decls) decl(name, sig string) {
	if !d.seen[name] {
		d.seen[name] = true
		d.lines = append(d.lines, fmt.Sprintf("(declare-fun %s %s)", name, sig))
	}
}

func (d *Decls) raw(key, line string) {
	if !d.seen[key] {
		d.seen[key] = true
		d.lines = append(d.lines, line)
	}
}

var sanRepl = strings.NewReplacer("/", "_", ".", "_", "*", "P", "(", "", ")", "", " ", "_", "[", "L", "]", "R", "{", "", "}", "", ",", "_", "$", "S", "#", "H", "\"", "", ":", "_", ";", "_", "-", "_", "<", "_", ">", "_", "=", "_", "|", "_", "&", "_", "!", "_", "+", "_", "'", "_", "\\", "_", "…", "_", "%", "_", "?", "_", "`", "_", "~", "_", "^", "_", "@", "_")

func san(s string) string { return sanRepl.Replace(s) }

func typeKey(t types.Type) string {
	s := types.TypeString(t, func(p *types.Package) string { return p.Name() })
	return san(s)
}

// sortOf maps a Go type to an SMT sort name, declaring datatypes on the way.
func (d *Decls) sortOf(t types.Type) string {
	switch u := t.Underlying().(type) {
	case *types.Basic:
		switch {
		case u.Info()&types.IsBoolean != 0:
			return "Bool"
		case u.Info()&types.IsInteger != 0:
			return "Int"
		case u.Info()&types.IsString != 0:
			return "Str"
		case u.Info()&types.IsFloat != 0, u.Info()&types.IsComplex != 0:
			return "Flt"
		case u.Kind() == types.UnsafePointer:
			return "Int"
		case u.Kind() == types.UntypedNil:
			return "Int"
		}
		return "Opq"
	case *types.Pointer, *types.Map, *types.Chan, *types.Signature:
		return "Int"
	case *types.Slice:
		return "Slice"
	case *types.Interface:
		return "Iface"
	case *types.Struct:
		return d.structSort(t, u)
	case *types.Array:
		return "(Array Int " + d.sortOf(u.Elem()) + ")"
	case *types.Tuple:
		return "Opq"
	}
	return "Opq"
}

func structName(t types.Type) string {
	if n, ok := t.(*types.Named); ok {
		return "S_" + typeKey(n)
	}
	if a, ok := t.(*types.Alias); ok {
		return structName(types.Unalias(a))
	}
	return "S_anon_" + fmt.Sprintf("%x", hash(typeKey(t)))
}

func fieldName(s *types.Struct, i int) string {
	n := s.Field(i).Name()
	if n == "_" {
		n = fmt.Sprintf("blank%d", i)
	}
	return n
}

func (d *Decls) structSort(t types.Type, s *types.Struct) string {
	name := structName(t)
	if d.seen["dt:"+name] {
		return name
	}
	d.seen["dt:"+name] = true
	d.structs[name] = s
	var fs []string
	for i := 0; i < s.NumFields(); i++ {
		fs = append(fs, fmt.Sprintf("(%s_%s %s)", name, fieldName(s, i), d.sortOf(s.Field(i).Type())))
	}
	if len(fs) == 0 {
		d.lines = append(d.lines, fmt.Sprintf("(declare-datatype %s ((mk_%s)))", name, name))
	} else {
		d.lines = append(d.lines, fmt.Sprintf("(declare-datatype %s ((mk_%s %s)))", name, name, strings.Join(fs, " ")))
	}
	return name
}

func sel(t types.Type, s *types.Struct, i int, x string) string {
	return fmt.Sprintf("(%s_%s %s)", structName(t), fieldName(s, i), x)
}

// mkStruct builds a struct value from field terms.
func mkStruct(t types.Type, s *types.Struct, fs []string) string {
	if len(fs) == 0 {
		return "mk_" + structName(t)
	}
	return "(mk_" + structName(t) + " " + strings.Join(fs, " ") + ")"
}

// updField returns x with field i replaced by v.
func updField(t types.Type, s *types.Struct, x string, i int, v string) string {
	fs := make([]string, s.NumFields())
	for j := range fs {
		if j == i {
			fs[j] = v
		} else {
			fs[j] = sel(t, s, j, x)
		}
	}
	return mkStruct(t, s, fs)
}

func (d *Decls) zero(t types.Type) string {
	switch u := t.Underlying().(type) {
	case *types.Basic:
		switch d.sortOf(t) {
		case "Bool":
			return "false"
		case "Int":
			return "0"
		case "Str":
			return "str_empty"
		case "Flt":
			d.decl("flt_zero", "() Flt")
			return "flt_zero"
		}
		d.decl("opq_zero", "() Opq")
		return "opq_zero"
	case *types.Pointer, *types.Map, *types.Chan, *types.Signature:
		return "0"
	case *types.Slice:
		return "(mk_Slice 0 0 0 0)"
	case *types.Interface:
		return "(mk_Iface 0 0)"
	case *types.Struct:
		d.structSort(t, u)
		fs := make([]string, u.NumFields())
		for i := range fs {
			fs[i] = d.zero(u.Field(i).Type())
		}
		return mkStruct(t, u, fs)
	case *types.Array:
		return fmt.Sprintf("((as const (Array Int %s)) %s)", d.sortOf(u.Elem()), d.zero(u.Elem()))
	}
	d.decl("opq_zero", "() Opq")
	return "opq_zero"
}

// tag returns the dynamic-type tag of a concrete type (>= 1; 0 is the nil interface).
func (d *Decls) tag(t types.Type) int {
	k := types.TypeString(t, nil)
	if n, ok := d.tags[k]; ok {
		return n
	}
	n := len(d.tags) + 1
	d.tags[k] = n
	d.tagTypes = append(d.tagTypes, t)
	return n
}

func isPointerShaped(t types.Type) bool {
	switch t.Underlying().(type) {
	case *types.Pointer, *types.Map, *types.Chan, *types.Signature:
		return true
	}
	return false
}

func isRefSort(t types.Type) bool { return isPointerShaped(t) }

func hash(s string) uint32 {
	var h uint32 = 2166136261
	for i := 0; i < len(s); i++ {
		h = (h ^ uint32(s[i])) * 16777619
	}
	return h
}

func isUnsigned(t types.Type) bool {
	b, ok := t.Underlying().(*types.Basic)
	return ok && b.Info()&types.IsUnsigned != 0
}

func isInteger(t types.Type) bool {
	b, ok := t.Underlying().(*types.Basic)
	return ok && b.Info()&types.IsInteger != 0
}

func isString(t types.Type) bool {
	b, ok := t.Underlying().(*types.Basic)
	return ok && b.Info()&types.IsString != 0
}

func isNilable(t types.Type) bool {
	switch t.Underlying().(type) {
	case *types.Pointer, *types.Slice, *types.Map, *types.Interface, *types.Signature, *types.Chan:
		return true
	}
	return false
}
