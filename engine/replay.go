package main

import (
	"bytes"
	"encoding/json"
	"fmt"
	"go/types"
	"os"
	"os/exec"
	"path/filepath"
	"sort"
	"strings"
	"time"

	"golang.org/x/tools/go/ssa"
)

// Replay: a refuted obligation is turned into a Go test that runs the real function of /repo (injected
// with `go test -overlay`, nothing is written into the repository) on an input built for that obligation.
// Classes that can be replayed:
//   COPY    - the receiver is built from its type definition with every pointer, slice, map and interface
//             field populated; the generated per-field clauses are then evaluated on orig and orig.Copy().
//   FRAME   - (functions whose parameters are plain schema/lang data) the arguments are populated the same
//             way, deep-snapshotted, the function is run and the snapshot compared.
// Everything else is reported with the solver's model and "no-failing-input-found".

type replayTest struct {
	PkgDir   string `json:"package_dir"` // relative to the repository root
	TestName string `json:"test_name"`
	Source   string `json:"test_source"`
	Output   string `json:"test_output,omitempty"`
	Failed   bool   `json:"test_failed_as_predicted"`
	Input    string `json:"input_description"`
}

// popGen builds Go expressions of populated values.
type popGen struct {
	w       *World
	pkg     *types.Package
	imports map[string]string // path -> name
	n       int
	boolIdx int
	variant int
	impls   map[string][]types.Type
}

func (g *popGen) qual(p *types.Package) string {
	if p == g.pkg {
		return ""
	}
	g.imports[p.Path()] = p.Name()
	return p.Name()
}

func (g *popGen) tstr(t types.Type) string { return types.TypeString(t, g.qual) }

// nameable: the type can be written in the test's package.
func (g *popGen) nameable(t types.Type) bool {
	ok := true
	var walk func(t types.Type, d int)
	walk = func(t types.Type, d int) {
		if d > 6 {
			return
		}
		switch x := t.(type) {
		case *types.Named:
			if x.Obj().Pkg() != nil && x.Obj().Pkg() != g.pkg {
				if !x.Obj().Exported() || strings.Contains(x.Obj().Pkg().Path(), "/internal/") {
					ok = false
				}
			}
			if ta := x.TypeArgs(); ta != nil {
				for i := 0; i < ta.Len(); i++ {
					walk(ta.At(i), d+1)
				}
			}
		case *types.Pointer:
			walk(x.Elem(), d+1)
		case *types.Slice:
			walk(x.Elem(), d+1)
		case *types.Array:
			walk(x.Elem(), d+1)
		case *types.Map:
			walk(x.Key(), d+1)
			walk(x.Elem(), d+1)
		}
	}
	walk(t, 0)
	return ok
}

// visiblePkgs: the test's package and what it already imports (no new import edges: no cycles).
func (g *popGen) visiblePkgs() []*types.Package {
	ps := []*types.Package{g.pkg}
	ps = append(ps, g.pkg.Imports()...)
	return ps
}

func (g *popGen) implementations(it *types.Interface, named types.Type) []types.Type {
	key := g.tstr(named)
	if r, ok := g.impls[key]; ok {
		return r
	}
	var res []types.Type
	for _, p := range g.visiblePkgs() {
		if !strings.HasPrefix(p.Path(), modPath) {
			continue
		}
		sc := p.Scope()
		names := sc.Names()
		sort.Strings(names)
		for _, n := range names {
			tn, ok := sc.Lookup(n).(*types.TypeName)
			if !ok || tn.IsAlias() {
				continue
			}
			if p != g.pkg && !tn.Exported() {
				continue
			}
			t := tn.Type()
			if _, isI := t.Underlying().(*types.Interface); isI {
				continue
			}
			if nt, ok := t.(*types.Named); ok && nt.TypeParams() != nil {
				continue
			}
			if types.Implements(t, it) {
				res = append(res, t)
			} else if types.Implements(types.NewPointer(t), it) {
				res = append(res, types.NewPointer(t))
			}
		}
	}
	g.impls[key] = res
	return res
}

func (g *popGen) zero(t types.Type) string {
	switch u := t.Underlying().(type) {
	case *types.Basic:
		switch {
		case u.Info()&types.IsString != 0:
			return g.conv(t, `""`)
		case u.Info()&types.IsBoolean != 0:
			return g.conv(t, "false")
		case u.Info()&types.IsNumeric != 0:
			return g.conv(t, "0")
		}
		return "nil"
	case *types.Struct, *types.Array:
		return g.tstr(t) + "{}"
	}
	return "nil"
}

func (g *popGen) conv(t types.Type, lit string) string {
	if _, isNamed := t.(*types.Named); isNamed {
		return g.tstr(t) + "(" + lit + ")"
	}
	return lit
}

// expr returns a Go expression of type t with everything reachable within depth populated.
func (g *popGen) expr(t types.Type, depth int) string {
	if !g.nameable(t) {
		return g.zeroUnnameable(t)
	}
	if n, ok := t.(*types.Named); ok && n.Obj().Pkg() != nil {
		pp := n.Obj().Pkg().Path()
		switch {
		case pp == "github.com/zclconf/go-cty/cty" && n.Obj().Name() == "Type":
			g.imports[pp] = "cty"
			g.n++
			return []string{"cty.String", "cty.Number", "cty.Bool", "cty.List(cty.String)"}[g.n%4]
		case pp == "github.com/zclconf/go-cty/cty" && n.Obj().Name() == "Value":
			g.imports[pp] = "cty"
			g.n++
			return fmt.Sprintf("cty.StringVal(\"v%d\")", g.n)
		case !strings.HasPrefix(pp, modPath) && !strings.HasPrefix(pp, "github.com/hashicorp/hcl/v2"):
			// foreign types (context, url, ...) stay zero
			return g.zero(t)
		}
	}
	switch u := t.Underlying().(type) {
	case *types.Basic:
		g.n++
		switch {
		case u.Info()&types.IsString != 0:
			return g.conv(t, fmt.Sprintf("\"s%d\"", g.n))
		case u.Info()&types.IsBoolean != 0:
			// the m-th Boolean of variant k is bit (k mod 4) of m (complemented for k >= 4): any two Boolean
			// fields differ in some variant, so a copy that takes the wrong field shows
			m := g.boolIdx
			g.boolIdx++
			bit := (m >> uint(g.variant%4)) & 1
			if g.variant >= 4 {
				bit ^= 1
			}
			if bit == 1 {
				return g.conv(t, "true")
			}
			return g.conv(t, "false")
		case u.Info()&types.IsInteger != 0:
			return g.conv(t, fmt.Sprint(g.n%100+1))
		case u.Info()&types.IsFloat != 0:
			return g.conv(t, "1.5")
		}
		return g.zero(t)
	case *types.Struct:
		var fs []string
		for i := 0; i < u.NumFields(); i++ {
			f := u.Field(i)
			if !f.Exported() && f.Pkg() != g.pkg {
				continue
			}
			if f.Embedded() && !g.nameable(f.Type()) {
				continue
			}
			fs = append(fs, f.Name()+": "+g.expr(f.Type(), depth))
		}
		return g.tstr(t) + "{" + strings.Join(fs, ", ") + "}"
	case *types.Pointer:
		if depth <= 0 {
			return "nil"
		}
		if _, ok := u.Elem().Underlying().(*types.Struct); ok {
			return "&" + g.expr(u.Elem(), depth-1)
		}
		return fmt.Sprintf("func() %s { v := %s; return &v }()", g.tstr(t), g.expr(u.Elem(), depth-1))
	case *types.Slice:
		if depth <= 0 {
			return "nil"
		}
		if depth-1 <= 0 && nilable(u.Elem()) {
			return g.tstr(t) + "{}" // no nil elements: schemas do not hold nil entries
		}
		return g.tstr(t) + "{" + g.expr(u.Elem(), depth-1) + ", " + g.expr(u.Elem(), depth-1) + "}"
	case *types.Array:
		return g.tstr(t) + "{}"
	case *types.Map:
		if depth <= 0 {
			return "nil"
		}
		if !types.Comparable(u.Key()) {
			return g.tstr(t) + "{}"
		}
		if _, isI := u.Key().Underlying().(*types.Interface); isI {
			return g.tstr(t) + "{}"
		}
		if depth-1 <= 0 && nilable(u.Elem()) {
			return g.tstr(t) + "{}"
		}
		return g.tstr(t) + "{" + g.expr(u.Key(), 1) + ": " + g.expr(u.Elem(), depth-1) + ", " + g.expr(u.Key(), 1) + ": " + g.expr(u.Elem(), depth-1) + "}"
	case *types.Interface:
		if depth <= 0 {
			return "nil"
		}
		if u.NumMethods() == 0 {
			g.n++
			return fmt.Sprintf("\"a%d\"", g.n)
		}
		impls := g.implementations(u, t)
		if len(impls) == 0 {
			return "nil"
		}
		g.n++
		for try := 0; try < len(impls); try++ {
			impl := impls[(g.n+try)%len(impls)]
			x := g.expr(impl, depth-1)
			if x != "nil" {
				return x
			}
			if _, isPtr := impl.Underlying().(*types.Pointer); !isPtr {
				// a nil slice or map of a named implementation type is still a non-nil interface value
				return g.tstr(impl) + "(nil)"
			}
		}
		return "nil"
	}
	return "nil"
}

func nilable(t types.Type) bool {
	switch t.Underlying().(type) {
	case *types.Pointer, *types.Interface:
		return true
	}
	return false
}

func (g *popGen) zeroUnnameable(t types.Type) string {
	switch t.Underlying().(type) {
	case *types.Pointer, *types.Slice, *types.Map, *types.Interface, *types.Signature, *types.Chan:
		return "nil"
	}
	return "nil"
}

const replayHelpers = `
// ---- generated by /verif (govc replay); evaluates the generated COPY clauses on real values ----

func verifIsValueKind(t reflect.Type, depth int) bool {
	if strings.Contains(t.PkgPath(), "go-cty/cty") {
		return true
	}
	switch t.Kind() {
	case reflect.Bool, reflect.Int, reflect.Int8, reflect.Int16, reflect.Int32, reflect.Int64, reflect.Uint, reflect.Uint8,
		reflect.Uint16, reflect.Uint32, reflect.Uint64, reflect.Uintptr, reflect.Float32, reflect.Float64, reflect.String:
		return true
	case reflect.Struct:
		if depth > 3 {
			return false
		}
		for i := 0; i < t.NumField(); i++ {
			if !verifIsValueKind(t.Field(i).Type, depth+1) {
				return false
			}
		}
		return true
	}
	return false
}

func verifAccessible(v reflect.Value) reflect.Value {
	if v.CanInterface() {
		return v
	}
	if v.CanAddr() {
		return reflect.NewAt(v.Type(), unsafe.Pointer(v.UnsafeAddr())).Elem()
	}
	return v
}

func verifEqual(a, b reflect.Value) bool {
	a, b = verifAccessible(a), verifAccessible(b)
	if !a.CanInterface() || !b.CanInterface() {
		return true // cannot be observed
	}
	return reflect.DeepEqual(a.Interface(), b.Interface())
}

func verifIsPtrToStruct(t reflect.Type) bool {
	return t.Kind() == reflect.Ptr && t.Elem().Kind() == reflect.Struct
}

// verifField evaluates the clauses the COPY generator emits for one field (or for a container receiver).
func verifField(label string, o, c reflect.Value) []string {
	var out []string
	bad := func(kind, msg string) { out = append(out, label+":"+kind+": "+msg) }
	t := o.Type()
	if t.Name() == "Address" {
		if o.Len() != c.Len() {
			bad("len", fmt.Sprintf("len %d became %d", o.Len(), c.Len()))
			return out
		}
		for j := 0; j < o.Len(); j++ {
			if !verifEqual(o.Index(j), c.Index(j)) {
				bad("steps-equal", fmt.Sprintf("step %d differs", j))
			}
		}
		return out
	}
	switch t.Kind() {
	case reflect.Interface:
		if o.IsNil() != c.IsNil() || (!o.IsNil() && o.Elem().Type() != c.Elem().Type()) {
			bad("sametype", "dynamic type differs")
		}
	case reflect.Ptr:
		if verifIsPtrToStruct(t) {
			if o.IsNil() != c.IsNil() {
				bad("nilness", "nil-ness differs")
			} else if !o.IsNil() && o.Pointer() == c.Pointer() {
				bad("independent", "the copy holds the original's pointer")
			}
		}
	case reflect.Slice:
		if o.Len() != c.Len() {
			bad("len", fmt.Sprintf("len %d became %d", o.Len(), c.Len()))
			return out
		}
		if o.Len() > 0 && o.Pointer() == c.Pointer() {
			bad("independent", "the copy shares the original's backing array")
		}
		et := t.Elem()
		for j := 0; j < o.Len(); j++ {
			if verifIsPtrToStruct(et) {
				if !o.Index(j).IsNil() && o.Index(j).Pointer() == c.Index(j).Pointer() {
					bad("elems-independent", fmt.Sprintf("element %d is the original's pointer", j))
				}
			} else if verifIsValueKind(et, 0) {
				if !verifEqual(o.Index(j), c.Index(j)) {
					bad("elems-equal", fmt.Sprintf("element %d differs", j))
				}
			}
		}
	case reflect.Map:
		if !o.IsNil() && c.IsNil() {
			bad("nonnil-kept", "non-nil map became nil")
			return out
		}
		if !o.IsNil() && o.Pointer() == c.Pointer() {
			bad("independent", "the copy holds the original's map")
		}
		for _, k := range c.MapKeys() {
			ov := o.MapIndex(k)
			if !ov.IsValid() {
				bad("keys", fmt.Sprintf("key %v is not in the original", k))
				continue
			}
			if verifIsPtrToStruct(t.Elem()) && !ov.IsNil() && ov.Pointer() == c.MapIndex(k).Pointer() {
				bad("elems-independent", fmt.Sprintf("value of key %v is the original's pointer", k))
			}
		}
		for _, k := range o.MapKeys() {
			if !c.MapIndex(k).IsValid() {
				bad("keys-kept", fmt.Sprintf("key %v is missing in the copy", k))
			}
		}
	default:
		if verifIsValueKind(t, 0) && !verifEqual(o, c) {
			bad("equal", "value differs")
		}
	}
	return out
}

func verifCopyCheck(orig, cp interface{}) []string {
	o, c := reflect.ValueOf(orig), reflect.ValueOf(cp)
	if !c.IsValid() {
		return []string{"result: nil copy of a non-nil value"}
	}
	if o.Type() != c.Type() {
		return []string{"sametype: the copy has type " + c.Type().String() + ", the original " + o.Type().String()}
	}
	if o.Kind() == reflect.Ptr {
		if c.IsNil() {
			return []string{"nil: nil copy of a non-nil value"}
		}
		if o.Pointer() == c.Pointer() {
			return []string{"fresh: Copy returned its receiver"}
		}
		o, c = o.Elem(), c.Elem()
	} else {
		// make the values addressable so that unexported fields can be read
		on := reflect.New(o.Type()).Elem()
		on.Set(o)
		cn := reflect.New(c.Type()).Elem()
		cn.Set(c)
		o, c = on, cn
	}
	if o.Kind() != reflect.Struct {
		return verifField("self", o, c)
	}
	var out []string
	for i := 0; i < o.NumField(); i++ {
		out = append(out, verifField(o.Type().Field(i).Name, o.Field(i), c.Field(i))...)
	}
	return out
}
`

// copyReplay builds the test for a Copy method.
func (r *checkRun) copyReplay(f *ssa.Function) *replayTest {
	pkg := pkgOf(f)
	if pkg == nil || f.Signature.Recv() == nil {
		return nil
	}
	g := &popGen{w: r.w, pkg: pkg, imports: map[string]string{}, impls: map[string][]types.Type{}}
	recvT := f.Signature.Recv().Type()
	var cases []string
	// several populated receivers: interface fields rotate through their implementations
	for k := 0; k < 8; k++ {
		g.n = k * 7
		g.variant, g.boolIdx = k, 0
		cases = append(cases, g.expr(recvT, 3))
	}
	// sparse receivers: nested pointers, interfaces and containers left nil (a Copy that forgets a nil test
	// panics on these)
	for _, depth := range []int{0, 1, 2} {
		g.n, g.variant, g.boolIdx = 100+depth, depth, 0
		x := g.expr(recvT, depth)
		if depth == 0 {
			if pt, ok := recvT.Underlying().(*types.Pointer); ok {
				if _, isStruct := pt.Elem().Underlying().(*types.Struct); isStruct {
					x = "&" + g.expr(pt.Elem(), 0)
				}
			}
		}
		if x == "nil" {
			x = g.tstr(recvT) + "(nil)"
		}
		cases = append(cases, x)
	}
	var b bytes.Buffer
	fmt.Fprintf(&b, "package %s\n\nimport (\n\t\"fmt\"\n\t\"reflect\"\n\t\"strings\"\n\t\"testing\"\n\t\"unsafe\"\n", pkg.Name())
	var ips []string
	for p := range g.imports {
		ips = append(ips, p)
	}
	sort.Strings(ips)
	for _, p := range ips {
		fmt.Fprintf(&b, "\t%s %q\n", g.imports[p], p)
	}
	b.WriteString(")\n\nvar _ = fmt.Sprint\nvar _ = strings.Contains\nvar _ unsafe.Pointer\n")
	b.WriteString(replayHelpers)
	fmt.Fprintf(&b, "\nfunc TestVerifReplay(t *testing.T) {\n\torigs := []%s{\n", g.tstr(recvT))
	for _, c := range cases {
		fmt.Fprintf(&b, "\t\t%s,\n", c)
	}
	b.WriteString("\t}\n\tfor i, orig := range origs {\n\t\tcp := orig.Copy()\n\t\tfor _, m := range verifCopyCheck(orig, cp) {\n\t\t\tt.Errorf(\"VERIF-REPLAY-FAIL case %d: %s\", i, m)\n\t\t}\n\t}\n}\n")
	rel := strings.TrimPrefix(strings.TrimPrefix(pkg.Path(), modPath), "/")
	return &replayTest{PkgDir: rel, TestName: "TestVerifReplay", Source: b.String(),
		Input: "receiver values built from the type definition of " + g.tstr(recvT) + " with every pointer, slice, map and interface field populated (8 variants rotating the implementations of interface-typed fields, plus 3 sparse receivers whose nested pointers, interfaces and containers are nil)"}
}

// runReplay executes the test against the repository through a build overlay.
func runReplay(repo string, rt *replayTest) error {
	dir, err := os.MkdirTemp("", "verif-replay-")
	if err != nil {
		return err
	}
	defer os.RemoveAll(dir)
	src := filepath.Join(dir, "zz_verif_replay_test.go")
	if err := os.WriteFile(src, []byte(rt.Source), 0o644); err != nil {
		return err
	}
	target := filepath.Join(repo, rt.PkgDir, "zz_verif_replay_test.go")
	ov, _ := json.Marshal(map[string]interface{}{"Replace": map[string]string{target: src}})
	ovf := filepath.Join(dir, "overlay.json")
	os.WriteFile(ovf, ov, 0o644)
	cmd := exec.Command("go", "test", "-overlay", ovf, "-vet=off", "-count=1", "-timeout", "60s", "-run", "^"+rt.TestName+"$", "./"+rt.PkgDir)
	cmd.Dir = repo
	cmd.Env = append(os.Environ(), "GOFLAGS=-mod=mod", "GOPROXY=off", "GOSUMDB=off", "GOTOOLCHAIN=local")
	var out bytes.Buffer
	cmd.Stdout, cmd.Stderr = &out, &out
	done := make(chan error, 1)
	if err := cmd.Start(); err != nil {
		return err
	}
	go func() { done <- cmd.Wait() }()
	select {
	case <-done:
	case <-time.After(120 * time.Second):
		cmd.Process.Kill()
		<-done
	}
	s := out.String()
	if len(s) > 6000 {
		s = s[:6000] + "\n...[truncated]"
	}
	rt.Output = s
	rt.Failed = strings.Contains(s, "VERIF-REPLAY-FAIL") || strings.Contains(s, "panic:")
	return nil
}

// tryReplay attempts a replay for a violation; returns nil when the obligation's class has none.
func (r *checkRun) tryReplay(v *violation, cache map[string]*replayTest) *replayTest {
	f := r.w.byName[longNameOf(r.w, v.ob.Fn)]
	if f == nil {
		return nil
	}
	fam := v.ob.Family
	if fam == "SAFE" && isCopyMethod(r.w, f) {
		fam = "COPY" // a panic in a Copy method: the same receivers (they include sparse ones) show it
	}
	switch fam {
	case "COPY":
		if rt, ok := cache["COPY|"+v.ob.Fn]; ok {
			return rt
		}
		rt := r.copyReplay(f)
		if rt != nil {
			if err := runReplay(r.w.repo, rt); err != nil {
				rt.Output = "replay could not run: " + err.Error()
			}
		}
		cache["COPY|"+v.ob.Fn] = rt
		return rt
	}
	return nil
}

func longNameOf(w *World, short string) string {
	for _, f := range w.funcs {
		if shortName(f) == short {
			return f.String()
		}
	}
	return short
}

// replayCmd: `govc replay <file>` re-runs the test recorded in a replay file against /repo.
func replayCmd(args []string) int {
	if len(args) < 1 {
		fmt.Fprintln(os.Stderr, "replay <file> [-repo dir]")
		return 2
	}
	repo := "/repo"
	if len(args) >= 3 && args[1] == "-repo" {
		repo = args[2]
	}
	b, err := os.ReadFile(args[0])
	if err != nil {
		fmt.Fprintln(os.Stderr, err)
		return 2
	}
	var rec struct {
		Property   string      `json:"property"`
		Obligation string      `json:"obligation"`
		Test       *replayTest `json:"replay_test"`
	}
	if err := json.Unmarshal(b, &rec); err != nil {
		fmt.Fprintln(os.Stderr, err)
		return 2
	}
	if rec.Test == nil {
		os.Stdout.Write(b)
		fmt.Println("\n(no executable replay recorded for this obligation: no-failing-input-found)")
		return 0
	}
	rec.Test.Output, rec.Test.Failed = "", false
	if err := runReplay(repo, rec.Test); err != nil {
		fmt.Fprintln(os.Stderr, err)
		return 2
	}
	fmt.Printf("property=%s obligation=%q\ninput: %s\n%s\n", rec.Property, rec.Obligation, rec.Test.Input, rec.Test.Output)
	if rec.Test.Failed {
		fmt.Println("REPLAY: the violation reproduces on the real code")
		return 1
	}
	fmt.Println("REPLAY: the violation does not reproduce on this tree")
	return 0
}

// copyReplayAll: runs the COPY replay harness on every Copy method (on the unchanged tree nothing may fail:
// a failure is a defect of the harness or of the code).
func copyReplayAll(args []string) int {
	repo := "/repo"
	if len(args) >= 2 && args[0] == "-repo" {
		repo = args[1]
	}
	w, err := loadWorld(repo)
	if err != nil {
		fmt.Fprintln(os.Stderr, err)
		return 2
	}
	r := &checkRun{w: w}
	rc := 0
	for _, f := range w.funcs {
		if !isCopyMethod(w, f) {
			continue
		}
		rt := r.copyReplay(f)
		if rt == nil {
			fmt.Printf("%-50s no harness\n", shortName(f))
			continue
		}
		if err := runReplay(repo, rt); err != nil {
			fmt.Printf("%-50s error %v\n", shortName(f), err)
			continue
		}
		st := "ok"
		if rt.Failed {
			st = "FAIL"
			rc = 1
		} else if !strings.Contains(rt.Output, "ok  ") {
			st = "BROKEN"
			rc = 1
		}
		fmt.Printf("%-50s %s\n", shortName(f), st)
		if st != "ok" {
			fmt.Println(firstLines(rt.Output, 12))
		}
	}
	return rc
}
