package main

import (
	"fmt"
	"go/types"
	"strings"

	"golang.org/x/tools/go/ssa"
)

// COPY family: the contract of every Copy method of the schema and lang packages is generated from the
// receiver's type definition, field by field, so that a field added later creates an obligation that
// fails until Copy handles it. The generated contract is also what callers of Copy assume.

func isCopyMethod(w *World, f *ssa.Function) bool {
	if f.Name() != "Copy" || f.Signature.Recv() == nil || len(f.Params) != 1 || f.Signature.Results().Len() != 1 {
		return false
	}
	p := pkgOf(f)
	if p == nil {
		return false
	}
	return p.Path() == modPath+"/schema" || p.Path() == modPath+"/lang"
}

func hasCopyMethod(t types.Type) bool {
	for _, tt := range []types.Type{t, types.NewPointer(t)} {
		ms := types.NewMethodSet(tt)
		for i := 0; i < ms.Len(); i++ {
			if ms.At(i).Obj().Name() == "Copy" {
				return true
			}
		}
	}
	return false
}

// valueKind: immutable by the property's wording (basic, strings, cty values, structs of such).
func valueKind(t types.Type, depth int) bool {
	if n, ok := t.(*types.Named); ok && n.Obj().Pkg() != nil && strings.Contains(n.Obj().Pkg().Path(), "go-cty/cty") {
		return true
	}
	switch u := t.Underlying().(type) {
	case *types.Basic:
		return true
	case *types.Struct:
		if depth > 3 {
			return false
		}
		for i := 0; i < u.NumFields(); i++ {
			if !valueKind(u.Field(i).Type(), depth+1) {
				return false
			}
		}
		return true
	}
	return false
}

type copyClause struct {
	name string
	text string
}

func typeLit(t types.Type) string {
	return types.TypeString(t, func(p *types.Package) string { return p.Name() })
}

// fieldClauses: obligations relating src (an expression text denoting the original value) and dst.
func fieldClauses(label string, t types.Type, src, dst string) []copyClause {
	var cs []copyClause
	add := func(kind, text string) { cs = append(cs, copyClause{label + ":" + kind, text}) }
	if n, ok := t.(*types.Named); ok && n.Obj().Name() == "Address" {
		// addresses are immutable values by the property's wording and may be shared
		add("len", fmt.Sprintf("len(%s) == len(%s)", dst, src))
		add("steps-equal", fmt.Sprintf("len(%s) == len(%s) && forall(j, 0, len(%s), %s[j] == %s[j])", dst, src, src, dst, src))
		return cs
	}
	switch u := t.Underlying().(type) {
	case *types.Interface:
		add("sametype", fmt.Sprintf("sametype(%s, %s)", dst, src))
	case *types.Pointer:
		if _, ok := u.Elem().Underlying().(*types.Struct); ok {
			add("nilness", fmt.Sprintf("(%s == nil) == (%s == nil)", src, dst))
			add("independent", fmt.Sprintf("freshOrNil(%s)", dst))
		} else {
			add("equal", fmt.Sprintf("%s == %s", dst, src))
		}
	case *types.Slice:
		add("len", fmt.Sprintf("len(%s) == len(%s)", dst, src))
		add("independent", fmt.Sprintf("fresh(%s)", dst))
		el := u.Elem()
		switch eu := el.Underlying().(type) {
		case *types.Pointer:
			if _, ok := eu.Elem().Underlying().(*types.Struct); ok {
				add("elems-independent", fmt.Sprintf("forall(j, 0, len(%s), freshOrNil(%s[j]))", dst, dst))
			}
		default:
			if valueKind(el, 0) && !hasCopyMethod(el) {
				add("elems-equal", fmt.Sprintf("len(%s) == len(%s) && forall(j, 0, len(%s), %s[j] == %s[j])", dst, src, src, dst, src))
			}
		}
	case *types.Map:
		add("independent", fmt.Sprintf("freshOrNil(%s)", dst))
		add("nonnil-kept", fmt.Sprintf("implies(%s != nil, %s != nil)", src, dst))
		if p, ok := u.Elem().Underlying().(*types.Pointer); ok {
			if _, ok := p.Elem().Underlying().(*types.Struct); ok {
				add("elems-independent", fmt.Sprintf("forallkey(k, %s, freshOrNil(%s[k]))", dst, dst))
			}
		}
		add("keys", fmt.Sprintf("forallkey(k, %s, haskey(%s, k))", dst, src))
	default:
		if valueKind(t, 0) {
			add("equal", fmt.Sprintf("%s == %s", dst, src))
		}
	}
	return cs
}

// copyContract builds the generated contract of a Copy method.
func copyContract(w *World, f *ssa.Function) *Contract {
	recv := f.Params[0]
	rn := recv.Name()
	rt := recv.Type()
	resT := f.Signature.Results().At(0).Type()
	ct := &Contract{Key: shortName(f), LoopInv: map[int][]Clause{}, LoopDec: map[int]string{}, IterEns: map[int][]Clause{}, File: "generated:COPY", Generated: true}
	addE := func(name, text string) {
		ct.Ensures = append(ct.Ensures, Clause{Text: text, Tags: []string{"C17"}, Name: name, Family: "COPY"})
	}
	var st *types.Struct
	var stT types.Type
	src, dst := rn, "result"
	guard := ""
	switch u := rt.Underlying().(type) {
	case *types.Pointer:
		s, ok := u.Elem().Underlying().(*types.Struct)
		if !ok {
			return nil
		}
		st, stT = s, u.Elem()
		if implicitRecvNonNil(f) {
			// the method never tests its receiver: a nil receiver would panic (SAFE reports that)
		} else {
			addE("nil", fmt.Sprintf("(%s == nil) == (result == nil)", rn))
		}
		addE("fresh", fmt.Sprintf("implies(%s != nil, fresh(result))", rn))
		guard = rn + " != nil"
	case *types.Struct:
		st, stT = u, rt
		if _, isI := resT.Underlying().(*types.Interface); isI {
			tl := typeLit(rt)
			addE("sametype", fmt.Sprintf("typeis(result, %q)", tl))
			dst = fmt.Sprintf("as(result, %q)", tl)
			guard = fmt.Sprintf("typeis(result, %q)", tl)
		}
	default:
		// named slice / map receivers: the receiver itself is the container
		d := "result"
		g := ""
		if _, isI := resT.Underlying().(*types.Interface); isI {
			tl := typeLit(rt)
			addE("sametype", fmt.Sprintf("typeis(result, %q)", tl))
			d = fmt.Sprintf("as(result, %q)", tl)
			g = fmt.Sprintf("typeis(result, %q)", tl)
		}
		for _, c := range fieldClauses("self", rt, rn, d) {
			t := c.text
			if g != "" {
				t = "implies(" + g + ", " + t + ")"
			}
			addE(c.name, t)
		}
		return ct
	}
	_ = stT
	for i := 0; i < st.NumFields(); i++ {
		fn := st.Field(i).Name()
		for _, c := range fieldClauses(fn, st.Field(i).Type(), src+"."+fn, dst+"."+fn) {
			t := c.text
			if guard != "" {
				t = "implies(" + guard + ", " + t + ")"
			}
			addE(c.name, t)
		}
	}
	return ct
}

func (s *Specs) addGeneratedCopyContracts(w *World) {
	for _, f := range w.funcs {
		if !isCopyMethod(w, f) {
			continue
		}
		if _, declared := s.contracts[shortName(f)]; declared {
			continue
		}
		if ct := copyContract(w, f); ct != nil {
			s.contracts[ct.Key] = ct
			s.generated = append(s.generated, ct.Key)
		}
	}
}
