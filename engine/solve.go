package main

import (
	"bytes"
	"fmt"
	"os"
	"os/exec"
	"path/filepath"
	"sort"
	"strings"
	"sync"
	"time"
)

type solverCfg struct {
	name string
	args func(perQueryMs int) []string
}

var solvers = []solverCfg{
	{"z3-new", func(ms int) []string { return []string{"z3-new", fmt.Sprintf("-t:%d", ms), "-in"} }},
	{"z3", func(ms int) []string { return []string{"z3", fmt.Sprintf("-t:%d", ms), "-in"} }},
	{"cvc5", func(ms int) []string {
		return []string{"cvc5", "--incremental", "--lang=smt2", fmt.Sprintf("--tlimit-per=%d", ms)}
	}},
}

// script interleaves assertions and obligation queries in generation order: an obligation sees only
// the assumptions made before it (assert-then-assume), never its own.
func (e *Enc) script(obs []*Oblig, flagsOff map[string]bool, model bool) string {
	return e.scriptT(obs, flagsOff, model, 0)
}

// scriptT: as script; with defaultMs > 0 (z3 only) obligations flagged shortMs get their own, shorter
// per-query time limit (obligations that were never discharged on the pinned tree are not worth the full one).
func (e *Enc) scriptT(obs []*Oblig, flagsOff map[string]bool, model bool, defaultMs int) string {
	var b bytes.Buffer
	b.WriteString("(set-option :produce-models true)\n(set-logic ALL)\n")
	for _, l := range e.d.lines {
		b.WriteString(l)
		b.WriteByte('\n')
	}
	for _, l := range e.axioms {
		b.WriteString(l)
		b.WriteByte('\n')
	}
	for _, f := range e.flags {
		if flagsOff[f] {
			b.WriteString("(assert (not " + f + "))\n")
		} else {
			b.WriteString("(assert " + f + ")\n")
		}
	}
	k := 0
	for i := 0; i <= len(e.lines); i++ {
		for k < len(obs) && obs[k].at <= i {
			b.WriteString("; " + obs[k].Name + "\n")
			if defaultMs > 0 && obs[k].shortMs > 0 && obs[k].shortMs < defaultMs {
				b.WriteString(fmt.Sprintf("(set-option :timeout %d)\n", obs[k].shortMs))
				b.WriteString(obQuery(obs[k], model))
				b.WriteString(fmt.Sprintf("(set-option :timeout %d)\n", defaultMs))
			} else {
				b.WriteString(obQuery(obs[k], model))
			}
			k++
		}
		if i < len(e.lines) {
			b.WriteString(e.lines[i])
			b.WriteByte('\n')
		}
	}
	return b.String()
}

func obQuery(o *Oblig, model bool) string {
	s := "(push 1)\n(assert " + o.reach + ")\n(assert (not " + o.cond + "))\n(check-sat)\n"
	if model {
		s += "(get-model)\n"
	}
	return s + "(pop 1)\n"
}

// runScript feeds a script to a solver and returns one verdict per check-sat.
func runScript(cfg solverCfg, script string, n int, perQueryMs int) ([]string, string) {
	a := cfg.args(perQueryMs)
	total := time.Duration(perQueryMs*n+5000) * time.Millisecond
	if total > 10*time.Minute {
		total = 10 * time.Minute
	}
	cmd := exec.Command(a[0], a[1:]...)
	cmd.Stdin = strings.NewReader(script)
	var out bytes.Buffer
	cmd.Stdout = &out
	cmd.Stderr = &out
	done := make(chan error, 1)
	if err := cmd.Start(); err != nil {
		return nil, err.Error()
	}
	go func() { done <- cmd.Wait() }()
	select {
	case <-done:
	case <-time.After(total):
		cmd.Process.Kill()
		<-done
	}
	var vs []string
	raw := out.String()
	for _, l := range strings.Split(raw, "\n") {
		l = strings.TrimSpace(l)
		switch {
		case l == "sat" || l == "unsat" || l == "unknown" || l == "timeout":
			vs = append(vs, l)
		case strings.HasPrefix(l, "(error"):
			vs = append(vs, "error:"+l)
		}
	}
	return vs, raw
}

type solveOpts struct {
	quickMs   int
	retryMs   int
	portfolio bool
	dumpDir   string
	noVacuity bool
	crossCheck bool // thorough: every solver-discharged obligation is also put to the other solvers
	knownUnproved map[string]bool // obligations the baseline lists as unproved: one attempt, no portfolio retry
	prop string // the property being checked ("" = all): postconditions tagged only for other properties get one short attempt
	relevant func(o *Oblig) bool // (quick tier) is o part of this check? others get one short attempt
}

// solve discharges the obligations of one function.
func (e *Enc) solve(opt solveOpts) {
	var pend []*Oblig
	for _, o := range e.obs {
		if o.trivial {
			o.Verdict = "unsat"
			o.Solver = "syntactic"
			continue
		}
		pend = append(pend, o)
	}
	if len(pend) == 0 {
		return
	}
	other := map[*Oblig]bool{}
	for _, o := range pend {
		if opt.knownUnproved[o.Name] {
			o.shortMs = 1500
		}
		if opt.relevant != nil && o.Family != "LOOP" && o.Family != "VAC" && !opt.relevant(o) {
			// not an obligation of this property's check (a SAFE obligation outside its anchor files, ...)
			o.shortMs = 1500
			other[o] = true
		}
		if opt.prop != "" && (o.Family == "POST" || o.Family == "COPY") && len(o.tags) > 0 && !hasProp(o, opt.prop) {
			// a clause that serves other properties only: not part of this check (it is still assumed once
			// checked, as in every run)
			o.shortMs = 1500
			other[o] = true
		}
	}
	t00 := time.Now()
	phase := func(n string) {
		if os.Getenv("GOVC_PHASE") != "" && time.Since(t00) > 2*time.Second {
			fmt.Fprintf(os.Stderr, "phase %s %s %.1fs\n", shortName(e.top), n, time.Since(t00).Seconds())
		}
		t00 = time.Now()
	}
	off := map[string]bool{}
	// Houdini: drop automatic invariant candidates until the remaining ones are inductive
	for iter := 0; iter < 8 && len(e.flags) > 0; iter++ {
		var hob []*Oblig
		for _, o := range pend {
			if o.houdini > 0 && !off[fmt.Sprintf("hd_%d", o.houdini)] {
				hob = append(hob, o)
			}
		}
		if len(hob) == 0 {
			break
		}
		for _, o := range hob {
			o.Verdict = "" // re-decided under the current set of candidate invariants
		}
		hms := opt.quickMs
		if hms > 5000 {
			hms = 5000
		}
		e.runBatch(solvers[0], hob, off, hms)
		// a candidate is dropped only when it is refuted; one that merely timed out (a loaded machine) is put
		// to the solvers again, alone and with a longer limit, and if it stays undecided the function is
		// marked: dropping it silently would turn the obligations that rest on it into refutations
		var slow []*Oblig
		for _, o := range hob {
			if o.Verdict != "unsat" && o.Verdict != "sat" {
				slow = append(slow, o)
			}
		}
		if len(slow) > 0 {
			for _, cfg := range solvers {
				var again []*Oblig
				for _, o := range slow {
					if o.Verdict != "unsat" && o.Verdict != "sat" {
						again = append(again, o)
					}
				}
				if len(again) == 0 {
					break
				}
				e.runBatchC(cfg, again, off, 4*hms, 1)
			}
			for _, o := range slow {
				if o.Verdict != "unsat" && o.Verdict != "sat" {
					e.houdiniUndecided = append(e.houdiniUndecided, o.Name)
				}
			}
		}
		changed := false
		for _, o := range hob {
			if o.Verdict != "unsat" {
				f := fmt.Sprintf("hd_%d", o.houdini)
				if !off[f] {
					off[f] = true
					changed = true
				}
			}
		}
		if !changed {
			break
		}
	}
	e.flagsOff = off
	phase("houdini")
	var rest []*Oblig
	for _, o := range pend {
		if o.houdini > 0 {
			if off[fmt.Sprintf("hd_%d", o.houdini)] {
				o.Verdict = "dropped"
				o.Solver = "houdini"
			}
			if o.Verdict == "unsat" || o.Verdict == "dropped" {
				continue
			}
		}
		rest = append(rest, o)
	}
	e.runBatch(solvers[0], rest, off, opt.quickMs)
	if opt.portfolio {
		for _, cfg := range solvers[1:] {
			var again []*Oblig
			for _, o := range rest {
				if o.Verdict != "unsat" && o.Verdict != "sat" && !opt.knownUnproved[o.Name] && o.Family != "VAC" && !other[o] {
					again = append(again, o)
				}
			}
			if len(again) == 0 {
				break
			}
			// the undecided rest is retried with the longer limit, two queries per solver process
			e.runBatchC(cfg, again, off, opt.retryMs, 2)
		}
	}
	phase("main+portfolio")
	// vacuity: an obligation whose program point is unreachable under the assumptions proves nothing.
	// One reachability query per distinct program point that carries a discharged obligation.
	if !opt.noVacuity {
		byReach := map[string][]*Oblig{}
		var order []string
		for _, o := range pend {
			if o.Family == "VAC" || o.Verdict != "unsat" || o.reach == "true" || o.cond == "false" || other[o] {
				continue // (an obligation "false" is itself the claim that its point is unreachable)
			}
			if _, ok := byReach[o.reach]; !ok {
				order = append(order, o.reach)
			}
			byReach[o.reach] = append(byReach[o.reach], o)
		}
		var probes []*Oblig
		for _, r := range order {
			first := byReach[r][0]
			probes = append(probes, &Oblig{Fn: first.Fn, Family: "VAC", Kind: "point", Name: first.Name + " [reachable?]", cond: "false", reach: r, at: first.at})
		}
		// probes must be in generation order for the interleaved script
		sort.SliceStable(probes, func(i, j int) bool { return probes[i].at < probes[j].at })
		e.runBatchC(solvers[0], probes, off, opt.quickMs, 3) // satisfiable queries are the expensive ones
		for _, p := range probes {
			if p.Verdict == "unsat" {
				for _, o := range byReach[p.reach] {
					o.Verdict = "vacuous"
					o.Output = "program point unreachable under the assumptions"
				}
			}
		}
	}
	phase("vacuity")
	if opt.crossCheck {
		var proved []*Oblig
		for _, o := range pend {
			if o.Verdict == "unsat" && o.Family != "VAC" && (o.Solver == "z3-new" || o.Solver == "z3" || o.Solver == "cvc5") {
				proved = append(proved, o)
			}
		}
		for _, cfg := range solvers[1:] {
			clones := make([]*Oblig, len(proved))
			for i, o := range proved {
				c := *o
				c.Verdict, c.Solver, c.Output = "", "", ""
				clones[i] = &c
			}
			e.runBatch(cfg, clones, off, opt.retryMs)
			for i, c := range clones {
				switch c.Verdict {
				case "unsat":
					proved[i].crossAgree++
				case "sat":
					proved[i].crossDisagree = append(proved[i].crossDisagree, cfg.name)
				}
				proved[i].crossAsked++
			}
		}
	}
	if opt.dumpDir != "" {
		os.MkdirAll(opt.dumpDir, 0o755)
		os.WriteFile(filepath.Join(opt.dumpDir, san(shortName(e.top))+".smt2"), []byte(e.script(pend, off, false)), 0o644)
	}
}

// runBatch splits large batches over several solver processes (the assertions are cheap to replay, the
// queries are not).
func (e *Enc) runBatch(cfg solverCfg, obs []*Oblig, off map[string]bool, ms int) {
	chunk := 48
	if len(obs) > 150 {
		// a large function: later queries sit behind a long script and are the slow ones; smaller chunks
		// spread them over the solver processes
		chunk = 16
	}
	e.runBatchC(cfg, obs, off, ms, chunk)
}

func (e *Enc) runBatchC(cfg solverCfg, obs []*Oblig, off map[string]bool, ms int, chunk int) {
	if len(obs) <= chunk+chunk/3 {
		e.runBatch1(cfg, obs, off, ms)
		return
	}
	var wg sync.WaitGroup
	var mu sync.Mutex
	for i := 0; i < len(obs); i += chunk {
		j := i + chunk
		if j > len(obs) {
			j = len(obs)
		}
		part := obs[i:j]
		wg.Add(1)
		go func() {
			defer wg.Done()
			solverSlots <- struct{}{}
			defer func() { <-solverSlots }()
			sub := &Enc{d: e.d, axioms: e.axioms, flags: e.flags, lines: e.lines}
			sub.runBatch1(cfg, part, off, ms)
			mu.Lock()
			e.solverErrs = append(e.solverErrs, sub.solverErrs...)
			mu.Unlock()
		}()
	}
	wg.Wait()
}

var solverSlots = make(chan struct{}, 16)

func (e *Enc) runBatch1(cfg solverCfg, obs []*Oblig, off map[string]bool, ms int) {
	if len(obs) == 0 {
		return
	}
	t0 := time.Now()
	dms := 0
	if strings.HasPrefix(cfg.name, "z3") {
		dms = ms
	}
	vs, raw := runScript(cfg, e.scriptT(obs, off, false, dms), len(obs), ms)
	el := int(time.Since(t0).Milliseconds())
	if os.Getenv("GOVC_BATCH") != "" && el > 1000 {
		fmt.Fprintf(os.Stderr, "batch %s n=%d %dms\n", cfg.name, len(obs), el)
	}
	per := el / len(obs)
	hasErr := false
	for _, v := range vs {
		if strings.HasPrefix(v, "error:") {
			hasErr = true
		}
	}
	if hasErr || len(vs) != len(obs) {
		// a malformed script or a crash: every obligation of the batch is undecided
		for _, o := range obs {
			if o.Verdict == "" || o.Verdict == "unknown" {
				o.Verdict = "error"
				o.Solver = cfg.name
				o.Output = firstLines(raw, 6)
			}
		}
		if len(vs) == len(obs) {
			for i, o := range obs {
				if !strings.HasPrefix(vs[i], "error:") {
					o.Verdict, o.Solver, o.Ms = vs[i], cfg.name, per
				}
			}
		}
		e.solverErrs = append(e.solverErrs, cfg.name+": "+firstLines(raw, 3))
		return
	}
	for i, o := range obs {
		v := vs[i]
		if v == "timeout" {
			v = "unknown"
		}
		if o.Verdict == "" || o.Verdict == "unknown" || o.Verdict == "error" || v == "unsat" {
			o.Verdict, o.Solver, o.Ms = v, cfg.name, per
		}
	}
}

func firstLines(s string, n int) string {
	ls := strings.Split(s, "\n")
	if len(ls) > n {
		ls = ls[:n]
	}
	return strings.Join(ls, "\n")
}

// modelFor re-runs one obligation and returns the solver's model text.
func (e *Enc) modelFor(o *Oblig, ms int) string {
	_, raw := runScript(solvers[0], e.script([]*Oblig{o}, e.flagsOff, true), 1, ms)
	return raw
}
