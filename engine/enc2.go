package main

import (
	"fmt"
	"go/constant"
	"go/token"
	"go/types"
	"sort"
	"strings"

	"golang.org/x/tools/go/ssa"
)

func (e *Enc) binop(fr *Frame, x *ssa.BinOp) {
	a, b := e.val(fr, x.X), e.val(fr, x.Y)
	srt := e.d.sortOf(x.X.Type())
	uf := func(name string, res string) string {
		e.d.decl(name, "("+srt+" "+e.d.sortOf(x.Y.Type())+") "+res)
		return "(" + name + " " + a + " " + b + ")"
	}
	switch x.Op {
	case token.ADD:
		switch srt {
		case "Int":
			e.setVal(fr, x, "(+ "+a+" "+b+")")
		case "Str":
			e.d.decl("strcat", "(Str Str) Str")
			n := e.setVal(fr, x, "(strcat "+a+" "+b+")")
			e.assume(fmt.Sprintf("(= (strlen %s) (+ (strlen %s) (strlen %s)))", n, a, b))
		default:
			e.setVal(fr, x, uf("fadd", srt))
		}
	case token.SUB:
		if srt == "Int" {
			n := e.setVal(fr, x, "(- "+a+" "+b+")")
			if isUnsigned(x.Type()) {
				_ = n // wrap-around not modelled (M1)
			}
		} else {
			e.setVal(fr, x, uf("fsub", srt))
		}
	case token.MUL:
		if srt == "Int" && (isConst(x.X) || isConst(x.Y)) {
			e.setVal(fr, x, "(* "+a+" "+b+")")
		} else if srt == "Int" {
			e.setVal(fr, x, uf("imul", "Int"))
		} else {
			e.setVal(fr, x, uf("fmul", srt))
		}
	case token.QUO, token.REM:
		if srt == "Int" {
			e.addOb(fr, "SAFE", "div", x.Pos(), e.exprText(x.Pos(), "bin"), "(not (= "+b+" 0))", isConst(x.Y) && b != "0")
			op, ufn := "div", "idiv"
			if x.Op == token.REM {
				op, ufn = "mod", "irem"
			}
			e.d.decl(ufn, "(Int Int) Int")
			e.setVal(fr, x, fmt.Sprintf("(ite (and (>= %s 0) (> %s 0)) (%s %s %s) (%s %s %s))", a, b, op, a, b, ufn, a, b))
		} else {
			e.setVal(fr, x, uf("fdiv", srt))
		}
	case token.EQL, token.NEQ:
		var eq string
		switch {
		case srt == "Slice":
			// slices compare only against nil
			if isNilConst(x.Y) {
				eq = "(= (sarr " + a + ") 0)"
			} else {
				eq = "(= (sarr " + b + ") 0)"
			}
		case srt == "Str":
			eq = "(= " + a + " " + b + ")"
			if a == "str_empty" || b == "str_empty" {
				o := a
				if a == "str_empty" {
					o = b
				}
				eq = "(= (strlen " + o + ") 0)"
				e.assume("(= (= " + o + " str_empty) (= (strlen " + o + ") 0))")
			}
		case srt == "Flt" || srt == "Opq":
			eq = uf("feq", "Bool")
		default:
			eq = "(= " + a + " " + b + ")"
		}
		if x.Op == token.NEQ {
			eq = "(not " + eq + ")"
		}
		e.setVal(fr, x, eq)
	case token.LSS, token.LEQ, token.GTR, token.GEQ:
		op := map[token.Token]string{token.LSS: "<", token.LEQ: "<=", token.GTR: ">", token.GEQ: ">="}[x.Op]
		switch srt {
		case "Int":
			e.setVal(fr, x, "("+op+" "+a+" "+b+")")
		case "Str":
			// strings are compared through an order embedding into Int (any finite configuration of a total
			// order embeds), which makes transitivity available to the solver
			e.d.decl("strord", "(Str) Int")
			e.assume(fmt.Sprintf("(= (= (strord %s) (strord %s)) (= %s %s))", a, b, a, b))
			e.setVal(fr, x, "("+op+" (strord "+a+") (strord "+b+"))")
		default:
			e.setVal(fr, x, uf("flt_"+san(x.Op.String()), "Bool"))
		}
	case token.AND, token.OR, token.XOR, token.SHL, token.SHR, token.AND_NOT:
		if srt == "Bool" {
			switch x.Op {
			case token.AND:
				e.setVal(fr, x, "(and "+a+" "+b+")")
			case token.OR:
				e.setVal(fr, x, "(or "+a+" "+b+")")
			default:
				e.setVal(fr, x, "(xor "+a+" "+b+")")
			}
			return
		}
		n := e.setVal(fr, x, uf("bit_"+san(x.Op.String())+"_"+fmt.Sprint(int(x.Op)), "Int"))
		if isUnsigned(x.Type()) {
			e.assume("(>= " + n + " 0)")
		}
	default:
		e.freeVal(fr, x)
	}
}

func isNilConst(v ssa.Value) bool {
	c, ok := v.(*ssa.Const)
	return ok && c.Value == nil && isNilable(c.Type())
}

func (e *Enc) lookup(fr *Frame, st *State, x *ssa.Lookup) *State {
	switch u := x.X.Type().Underlying().(type) {
	case *types.Map:
		m, k := e.val(fr, x.X), e.val(fr, x.Index)
		d, v, _ := e.mapHeaps(u)
		in := e.freshConst(fr.pfx+"in", "Bool")
		e.define(in, "(and (not (= "+m+" 0)) "+e.sel(e.view(st, d), d, Loc{m, k})+")")
		val := "(ite " + in + " " + e.sel(e.view(st, v), v, Loc{m, k}) + " " + e.d.zero(u.Elem()) + ")"
		if x.CommaOk {
			vn := e.freshConst(fr.pfx+san(x.Name())+"_v", e.d.sortOf(u.Elem()))
			e.define(vn, val)
			fr.tup[x] = []string{vn, in}
			e.mapValFacts(u, vn, in)
		} else {
			n := e.setVal(fr, x, val)
			e.mapValFacts(u, n, in)
		}
	case *types.Basic: // string index
		s, idx := e.val(fr, x.X), e.val(fr, x.Index)
		e.addOb(fr, "SAFE", "index", x.Pos(), e.exprText(x.Pos(), "index"), fmt.Sprintf("(and (<= 0 %s) (< %s (strlen %s)))", idx, idx, s), false)
		e.d.decl("strbyte", "(Str Int) Int")
		n := e.setVal(fr, x, "(strbyte "+s+" "+idx+")")
		e.assume("(and (<= 0 " + n + ") (<= " + n + " 255))")
	default:
		e.freeVal(fr, x)
	}
	return st
}

func (e *Enc) sliceOp(fr *Frame, st *State, x *ssa.Slice) *State {
	lo, hi := "0", ""
	if x.Low != nil {
		lo = e.val(fr, x.Low)
	}
	if x.High != nil {
		hi = e.val(fr, x.High)
	}
	text := e.exprText(x.Pos(), "slice")
	switch u := x.X.Type().Underlying().(type) {
	case *types.Basic: // string
		s := e.val(fr, x.X)
		if hi == "" {
			hi = "(strlen " + s + ")"
		}
		e.addOb(fr, "SAFE", "slice", x.Pos(), text, fmt.Sprintf("(and (<= 0 %s) (<= %s %s) (<= %s (strlen %s)))", lo, lo, hi, hi, s), x.Low == nil && x.High == nil)
		e.d.decl("substr", "(Str Int Int) Str")
		n := e.setVal(fr, x, fmt.Sprintf("(substr %s %s %s)", s, lo, hi))
		e.assumeG(fmt.Sprintf("(= (strlen %s) (- %s %s))", n, hi, lo))
		e.assume(fmt.Sprintf("(=> (and (= %s 0) (= %s (strlen %s))) (= %s %s))", lo, hi, s, n, s))
	case *types.Slice:
		s := e.val(fr, x.X)
		if hi == "" {
			hi = "(slen " + s + ")"
		}
		mx := "(scap " + s + ")"
		capv := "(- (scap " + s + ") " + lo + ")"
		if x.Max != nil {
			m := e.val(fr, x.Max)
			e.addOb(fr, "SAFE", "slice", x.Pos(), text, fmt.Sprintf("(and (<= 0 %s) (<= %s %s) (<= %s %s) (<= %s %s))", lo, lo, hi, hi, m, m, mx), false)
			capv = "(- " + m + " " + lo + ")"
		} else {
			e.addOb(fr, "SAFE", "slice", x.Pos(), text, fmt.Sprintf("(and (<= 0 %s) (<= %s %s) (<= %s %s))", lo, lo, hi, hi, mx), x.Low == nil && x.High == nil)
		}
		e.setVal(fr, x, fmt.Sprintf("(mk_Slice (sarr %s) (+ (soff %s) %s) (- %s %s) %s)", s, s, lo, hi, lo, capv))
	case *types.Pointer:
		arr, ok := u.Elem().Underlying().(*types.Array)
		if !ok {
			e.freeVal(fr, x)
			return st
		}
		var ref string
		if a := fr.addrs[x.X]; a != nil {
			if !a.whole {
				e.unsup("slice of embedded array")
				e.freeVal(fr, x)
				return st
			}
			ref = a.loc[0]
		} else {
			ref = e.val(fr, x.X)
		}
		if hi == "" {
			hi = fmt.Sprint(arr.Len())
		}
		e.addOb(fr, "SAFE", "slice", x.Pos(), text, fmt.Sprintf("(and (<= 0 %s) (<= %s %s) (<= %s %d))", lo, lo, hi, hi, arr.Len()), x.Low == nil && x.High == nil)
		e.setVal(fr, x, fmt.Sprintf("(mk_Slice %s %s (- %s %s) (- %d %s))", ref, lo, hi, lo, arr.Len(), lo))
	default:
		e.freeVal(fr, x)
	}
	return st
}

func (e *Enc) convert(fr *Frame, st *State, x *ssa.Convert) *State {
	from, to := x.X.Type(), x.Type()
	fs, ts := e.d.sortOf(from), e.d.sortOf(to)
	v := e.val(fr, x.X)
	switch {
	case fs == "Int" && ts == "Int":
		if isUnsigned(to) && !isUnsigned(from) {
			n := e.freeVal(fr, x)
			e.assume("(=> (>= " + v + " 0) (= " + n + " " + v + "))")
		} else {
			// M1: integers are mathematical; conversions between integer types keep the value
			e.setVal(fr, x, v)
		}
	case fs == "Str" && ts == "Slice": // []byte(s)
		r := e.alloc(fr, &st, x, "cv")
		e.setVal(fr, x, fmt.Sprintf("(mk_Slice %s 0 (strlen %s) (strlen %s))", r, v, v))
	case fs == "Slice" && ts == "Str": // string(b): a function of the slice and the heap it is read in
		told, gate := e.heapTokensH(st, []string{v}, []types.Type{from}, []string{e.elemHeap(from.Underlying().(*types.Slice).Elem())})
		e.d.decl("bytes2str", "(Slice Int Int) Str")
		n := e.setVal(fr, x, "(bytes2str "+v+" "+told+" "+gate+")")
		e.assume(fmt.Sprintf("(= (strlen %s) (slen %s))", n, v))
	case fs == "Int" && ts == "Str": // string(rune)
		n := e.freeVal(fr, x)
		e.assume("(and (>= (strlen " + n + ") 1) (<= (strlen " + n + ") 4))")
	case fs == ts:
		e.setVal(fr, x, v)
	default:
		e.freeVal(fr, x)
	}
	return st
}

func intRange(k types.BasicKind) (string, string) {
	switch k {
	case types.Int8:
		return "(- 128)", "127"
	case types.Int16:
		return "(- 32768)", "32767"
	case types.Int32:
		return "(- 2147483648)", "2147483647"
	case types.Uint8:
		return "0", "255"
	case types.Uint16:
		return "0", "65535"
	case types.Uint32:
		return "0", "4294967295"
	}
	return "", ""
}

func (e *Enc) implPred(i types.Type) string {
	n := "impl_" + typeKey(i)
	if !e.d.seen[n] {
		e.d.decl(n, "(Int) Bool")
		e.assume("(not (" + n + " 0))")
		e.ifaceTypes = append(e.ifaceTypes, i)
	}
	return n
}

func (e *Enc) typeAssert(fr *Frame, x *ssa.TypeAssert) {
	v := e.val(fr, x.X)
	var ok, res string
	if _, isIface := x.AssertedType.Underlying().(*types.Interface); isIface {
		ok = "(" + e.implPred(x.AssertedType) + " (itag " + v + "))"
		res = v
	} else {
		tag := e.d.tag(x.AssertedType)
		ok = fmt.Sprintf("(= (itag %s) %d)", v, tag)
		res = e.unbox(x.AssertedType, "(ival "+v+")")
	}
	if x.CommaOk {
		okn := e.freshConst(fr.pfx+san(x.Name())+"_ok", "Bool")
		e.define(okn, ok)
		vn := e.freshConst(fr.pfx+san(x.Name())+"_v", e.d.sortOf(x.AssertedType))
		e.assume("(=> " + okn + " (= " + vn + " " + res + "))")
		e.assume("(=> (not " + okn + ") (= " + vn + " " + e.d.zero(x.AssertedType) + "))")
		if isPointerShaped(x.AssertedType) && e.spec.nonnilIface[typeStr(x.X.Type())] {
			// trusted: AST interface values never hold typed nil pointers
			e.assume("(=> " + okn + " (not (= " + vn + " 0)))")
			e.usedTrusted["iface-nonnil "+typeStr(x.X.Type())] = true
		}
		fr.tup[x] = []string{vn, okn}
		e.astRangeAxiom(fr, x.X.Type(), x.AssertedType, v, vn, okn)
		return
	}
	e.addOb(fr, "SAFE", "typeassert", x.Pos(), e.exprText(x.Pos(), "assert"), ok, false)
	e.assumeG(ok)
	n := e.setVal(fr, x, res)
	if isPointerShaped(x.AssertedType) && e.spec.nonnilIface[typeStr(x.X.Type())] {
		e.assumeG("(not (= " + n + " 0))")
		e.usedTrusted["iface-nonnil "+typeStr(x.X.Type())] = true
	}
	e.astRangeAxiom(fr, x.X.Type(), x.AssertedType, v, n, "true")
}

// astIfaceKey: the interfaces of the hcl AST (hcl.Expression, hclsyntax.Expression, hclsyntax.Node, ...) are
// views of the same node values; their methods get one symbol per method name.
func astIfaceKey(t types.Type) string {
	if n, ok := t.(*types.Named); ok && n.Obj().Pkg() != nil {
		switch n.Obj().Pkg().Path() {
		case "github.com/hashicorp/hcl/v2", "github.com/hashicorp/hcl/v2/hclsyntax":
			if _, isI := t.Underlying().(*types.Interface); isI {
				return "hclast"
			}
		}
	}
	return typeKey(t)
}

// astRangeAxiom: after x.(*hclsyntax.T) succeeded, x.Range() (an uninterpreted function of the interface
// value) is what T's own Range method returns (its body is inlined from the pinned hcl source).
func (e *Enc) astRangeAxiom(fr *Frame, ifaceT, assertedT types.Type, ifaceTerm, ptrTerm, ok string) {
	if astIfaceKey(ifaceT) != "hclast" || fr.curState == nil || e.quant > 0 {
		return
	}
	if _, isPtr := assertedT.Underlying().(*types.Pointer); !isPtr {
		return
	}
	for _, mname := range []string{"Range", "StartRange"} {
		sel := e.w.prog.MethodSets.MethodSet(assertedT).Lookup(nil, mname)
		if sel == nil {
			continue
		}
		fn := e.w.prog.MethodValue(sel)
		if fn == nil || !e.willInline(fn, fr.depth) {
			continue
		}
		uf := "IM_hclast_" + mname + "_0"
		rt := fn.Signature.Results().At(0).Type()
		e.d.decl(uf, "(Iface) "+e.d.sortOf(rt))
		save := e.cur
		e.cur = "(and " + save + " " + ok + ")"
		if ok == "true" {
			e.cur = save
		}
		rs, _ := e.inlineFn(fr, fr.curState, fn, []string{ptrTerm}, nil, nil, false)
		e.cur = save
		if len(rs) == 1 {
			e.assumeG("(=> " + ok + " (= (" + uf + " " + ifaceTerm + ") " + rs[0] + "))")
		}
	}
}

func (e *Enc) next(fr *Frame, st *State, x *ssa.Next) *State {
	rg, _ := x.Iter.(*ssa.Range)
	ok := e.freshConst(fr.pfx+san(x.Name())+"_ok", "Bool")
	if x.IsString || rg == nil {
		k := e.freshConst(fr.pfx+san(x.Name())+"_k", "Int")
		v := e.freshConst(fr.pfx+san(x.Name())+"_r", "Int")
		if rg != nil {
			s := e.val(fr, rg.X)
			e.assume(fmt.Sprintf("(=> %s (and (<= 0 %s) (< %s (strlen %s)) (>= %s 0)))", ok, k, k, s, v))
		}
		fr.tup[x] = []string{ok, k, v}
		return st
	}
	m := rg.X.Type().Underlying().(*types.Map)
	mr := e.val(fr, rg.X)
	d, vh, l := e.mapHeaps(m)
	k := e.freshConst(fr.pfx+san(x.Name())+"_k", e.d.sortOf(m.Key()))
	v := e.freshConst(fr.pfx+san(x.Name())+"_v", e.d.sortOf(m.Elem()))
	e.assume(fmt.Sprintf("(=> %s (and (not (= %s 0)) %s (= %s %s) (> %s 0)))", ok, mr, e.sel(e.view(st, d), d, Loc{mr, k}), v, e.sel(e.view(st, vh), vh, Loc{mr, k}), e.sel(e.view(st, l), l, Loc{mr})))
	fr.tup[x] = []string{ok, k, v}
	e.typeFacts(m.Key(), k, false)
	e.typeFacts(m.Elem(), v, false)
	// visited protocol: every iteration order is covered. vis is the set of keys produced by earlier
	// iterations; the next key is new; when the iterator is exhausted every key has been visited.
	if li := fr.loops[x.Block()]; li != nil {
		ks := e.d.sortOf(m.Key())
		vis := li.vis
		if vis == "" {
			e.n++
			vis = fmt.Sprintf("%svis_%d", fr.pfx, e.n)
			e.d.decl(vis, "("+ks+") Bool")
		}
		li.vis, li.visKey, li.visKeySort = vis, k, ks
		li.visOk = ok
		e.assume(fmt.Sprintf("(=> %s (not (%s %s)))", ok, vis, k))
		q := e.fresh("q_vk")
		e.quant++
		dom := e.sel(e.view(st, d), d, Loc{mr, q})
		e.quant--
		e.assumeG(fmt.Sprintf("(=> (not %s) (forall ((%s %s)) (! (=> (and (not (= %s 0)) %s) (%s %s)) :pattern ((%s %s)))))", ok, q, ks, mr, dom, vis, q, vis, q))
		e.assumeG(fmt.Sprintf("(forall ((%s %s)) (! (=> (%s %s) (and (not (= %s 0)) %s)) :pattern ((%s %s))))", q, ks, vis, q, mr, dom, vis, q))
	}
	// ghost iteration counter for this loop
	if li := fr.loops[x.Block()]; li != nil && li.iter != "" {
		lenNow := e.sel(e.view(st, l), l, Loc{mr})
		e.assume(fmt.Sprintf("(=> %s (< %s %s))", ok, li.iter, lenNow))
	}
	return st
}

// ---- calls ---------------------------------------------------------------------------------

func (e *Enc) willInline(callee *ssa.Function, depth int) bool {
	if e.noInline || callee == nil || len(callee.Blocks) == 0 || depth >= e.maxDepth() {
		return false
	}
	if e.w.recursive[callee] {
		return false
	}
	if e.spec.contractFor(callee) != nil {
		return false
	}
	if e.w.mine[pkgOf(callee)] && e.ifaceContractFor(callee) != nil {
		return false
	}
	if e.pureCalls && len(findLoops(callee)) > 0 {
		return false
	}
	for _, f := range e.inlineStack {
		if f == callee {
			return false
		}
	}
	n := 0
	for _, b := range callee.Blocks {
		n += len(b.Instrs)
	}
	if callee.Pkg == nil {
		return false
	}
	pp := callee.Pkg.Pkg.Path()
	if e.w.mine[callee.Pkg.Pkg] {
		return n <= 150 && !e.spec.noInline[shortName(callee)]
	}
	if e.spec.inlineDep(callee) {
		return n <= 120
	}
	_ = pp
	return false
}

func (e *Enc) maxDepth() int { return 3 }

func (e *Enc) call(fr *Frame, st *State, c *ssa.Call) *State {
	cc := c.Common()
	if b, ok := cc.Value.(*ssa.Builtin); ok {
		return e.builtin(fr, st, c, b)
	}
	var args []string
	for _, a := range cc.Args {
		args = append(args, e.val(fr, a))
	}
	text := e.exprText(c.Pos(), "call")
	if cc.IsInvoke() {
		recv := e.val(fr, cc.Value)
		e.addOb(fr, "SAFE", "nil", c.Pos(), text, "(not (= (itag "+recv+") 0))", false)
		e.assumeG("(not (= (itag " + recv + ") 0))")
		e.siteAsserts(fr, st, c)
		return e.invoke(fr, st, c, recv, args)
	}
	callee := cc.StaticCallee()
	if callee != nil {
		e.siteAsserts(fr, st, c)
	}
	if callee == nil {
		fv := e.val(fr, cc.Value)
		e.addOb(fr, "SAFE", "nil", c.Pos(), text, "(not (= "+fv+" 0))", false)
		// a function value: either a closure created inside hcl-lang (its writes are accounted for where it
		// was created and at every opaque call after it escaped, see closureEffects) or code supplied from
		// outside (hooks), which is assumed to write nothing that existed before the call
		e.usedTrusted["function values supplied from outside hcl-lang (hooks) write nothing that existed before the call"] = true
		st = e.havocCall(fr, st, c, false)
		return st
	}
	if mc, ok := cc.Value.(*ssa.MakeClosure); ok {
		// immediately-invoked closure: bind free variables
		_ = mc
	}
	name := shortName(callee)
	if e.w.mine[pkgOf(callee)] && implicitRecvNonNil(callee) && len(args) > 0 {
		// methods that never test their receiver against nil are verified assuming it is non-nil:
		// the assumption is an obligation here
		e.addOb(fr, "SAFE", "nilrecv", c.Pos(), text, "(not (= "+args[0]+" 0))", e.allocTerms[args[0]])
		e.assumeG("(not (= " + args[0] + " 0))")
	}
	if e.readerUF(callee) {
		// reads the heap, writes nothing, returns plain values: a function of arguments and heap version
		// (the same symbol is used when a contract mentions the call)
		if ct := e.spec.contractFor(callee); ct != nil {
			return e.callContract(fr, st, c, callee, ct, args)
		}
		e.readerResult(fr, c, e.readerName(callee, st), st, args, cc.Args)
		return st
	}
	if ct := e.spec.contractFor(callee); ct != nil {
		return e.callContract(fr, st, c, callee, ct, args)
	}
	if e.w.mine[pkgOf(callee)] {
		// a static call of a method that implements an interface under contract is governed by that contract
		if ict := e.ifaceContractFor(callee); ict != nil {
			return e.callContract(fr, st, c, callee, ict, args)
		}
	}
	if e.willInline(callee, fr.depth) {
		return e.inlineCall(fr, st, c, callee, args, cc)
	}
	if e.w.mine[pkgOf(callee)] {
		return e.havocCall(fr, st, c, false)
	}
	// dependency function
	if e.spec.isMutator(callee) {
		return e.mutatorCall(fr, st, c, callee, args)
	}
	pure := true
	for _, a := range cc.Args {
		if !valueLike(a.Type(), 0) {
			pure = false
		}
	}
	if pure || e.spec.pure[name] {
		e.ufResult(fr, c, "X_"+san(name), args, cc.Args)
		if name == "strconv.Quote" && len(args) == 1 {
			// what %q prints for a string
			if t, ok := fr.vals[c]; ok {
				e.d.decl("strquote", "(Str) Str")
				e.assume("(= " + t + " (strquote " + args[0] + "))")
				e.usedTrusted["strconv.Quote(s) is what %q prints for s"] = true
			}
		}
		e.olderResults(fr, c, st)
		e.resultFacts(fr, c, callee)
		if (name == "context.Background" || name == "context.TODO") && len(args) == 0 {
			// trusted: the empty context answers nil for every key
			if res, ok := fr.vals[c]; ok {
				uf := "IM_" + typeKey(c.Type()) + "_Value_0"
				e.d.decl(uf, "(Iface Iface) Iface")
				q := e.fresh("q_key")
				e.assume(fmt.Sprintf("(forall ((%s Iface)) (! (= (%s %s %s) (mk_Iface 0 0)) :pattern ((%s %s %s))))", q, uf, res, q, uf, res, q))
				e.assume("(not (= (itag " + res + ") 0))")
				e.usedTrusted["context.Background: Value(key)=nil for every key"] = true
			}
		}
		return st
	}
	st = e.havocCall(fr, st, c, false)
	st = e.outParams(fr, st, c)
	e.resultFacts(fr, c, callee)
	if name == "context.WithValue" && len(args) == 3 {
		// trusted: the derived context answers val for key and what the parent answers for every other key
		if res, ok := fr.vals[c]; ok {
			uf := "IM_" + typeKey(c.Type()) + "_Value_0"
			e.d.decl(uf, "(Iface Iface) Iface")
			e.assume(fmt.Sprintf("(= (%s %s %s) %s)", uf, res, args[1], args[2]))
			q := e.fresh("q_key")
			e.assume(fmt.Sprintf("(forall ((%s Iface)) (! (=> (not (= %s %s)) (= (%s %s %s) (%s %s %s))) :pattern ((%s %s %s))))", q, q, args[1], uf, res, q, uf, args[0], q, uf, res, q))
			e.assume("(not (= (itag " + res + ") 0))")
			e.usedTrusted["context.WithValue: Value(key)=val, other keys as in the parent"] = true
		}
	}
	if name == "strconv.Quote" && len(cc.Args) == 1 {
		if t, ok := fr.vals[c]; ok {
			e.d.decl("strquote", "(Str) Str")
			e.assume("(= " + t + " (strquote " + e.val(fr, cc.Args[0]) + "))")
			e.usedTrusted["strconv.Quote(s) is what %q prints for s"] = true
		}
	}
	if name == "fmt.Sprintf" && len(cc.Args) > 0 {
		if k, ok := cc.Args[0].(*ssa.Const); ok && k.Value != nil {
			// a format made of literal text and %s verbs over string arguments is a concatenation
			if t, ok := fr.vals[c]; ok {
				if cat := e.sprintfConcat(fr, constant.StringVal(k.Value), c); cat != "" {
					e.assume("(= " + t + " " + cat + ")")
					e.usedTrusted["fmt.Sprintf with only %s and %q verbs over strings is concatenation (of the strings, resp. their quoted forms)"] = true
				}
			}
			if n := sprintfLiteralLen(constant.StringVal(k.Value)); n > 0 {
				if t, ok := fr.vals[c]; ok {
					e.assume(fmt.Sprintf("(>= (strlen %s) %d)", t, n))
					e.usedTrusted["fmt.Sprintf keeps the literal characters of its format"] = true
				}
			}
		}
	}
	return st
}

// sprintfConcat: for a format consisting of literal text and plain %s verbs whose arguments are strings, the
// term that concatenates the pieces; "" otherwise.
func (e *Enc) sprintfConcat(fr *Frame, format string, c *ssa.Call) string {
	args := varargValues(c)
	var pieces []string
	lit := ""
	ai := 0
	flush := func() {
		if lit != "" {
			pieces = append(pieces, e.strConst(lit))
			lit = ""
		}
	}
	for i := 0; i < len(format); i++ {
		if format[i] != '%' {
			lit += string(format[i])
			continue
		}
		if i+1 >= len(format) {
			return ""
		}
		i++
		switch format[i] {
		case '%':
			lit += "%"
		case 's':
			if args == nil || ai >= len(args) {
				return ""
			}
			a := args[ai]
			ai++
			b, ok := a.Type().Underlying().(*types.Basic)
			if !ok || b.Info()&types.IsString == 0 {
				return ""
			}
			flush()
			pieces = append(pieces, e.val(fr, a))
		case 'q':
			// %q of a string: the Go-quoted form, an uninterpreted function of the string (strquote)
			if args == nil || ai >= len(args) {
				return ""
			}
			a := args[ai]
			ai++
			b, ok := a.Type().Underlying().(*types.Basic)
			if !ok || b.Info()&types.IsString == 0 {
				return ""
			}
			flush()
			e.d.decl("strquote", "(Str) Str")
			pieces = append(pieces, "(strquote "+e.val(fr, a)+")")
		default:
			return ""
		}
	}
	flush()
	if len(pieces) == 0 || args == nil || ai != len(args) {
		return ""
	}
	e.d.decl("strcat", "(Str Str) Str")
	t := pieces[len(pieces)-1]
	for i := len(pieces) - 2; i >= 0; i-- {
		t = "(strcat " + pieces[i] + " " + t + ")"
	}
	return t
}

// varargValues: the values stored into the variadic argument slice of a call (fmt.Sprintf(f, a, b)), before
// their conversion to interface; nil if the slice is not a literal built for this call.
func varargValues(c *ssa.Call) []ssa.Value {
	cc := c.Common()
	if len(cc.Args) == 0 {
		return nil
	}
	last := cc.Args[len(cc.Args)-1]
	if k, ok := last.(*ssa.Const); ok && k.IsNil() {
		return []ssa.Value{}
	}
	sl, ok := last.(*ssa.Slice)
	if !ok {
		return nil
	}
	al, ok := sl.X.(*ssa.Alloc)
	if !ok || al.Comment != "varargs" {
		return nil
	}
	arr, ok := al.Type().Underlying().(*types.Pointer).Elem().Underlying().(*types.Array)
	if !ok {
		return nil
	}
	out := make([]ssa.Value, arr.Len())
	for _, r := range *al.Referrers() {
		ia, ok := r.(*ssa.IndexAddr)
		if !ok {
			continue
		}
		k, ok := ia.Index.(*ssa.Const)
		if !ok {
			return nil
		}
		for _, rr := range *ia.Referrers() {
			if st, ok := rr.(*ssa.Store); ok && st.Addr == ia {
				v := st.Val
				if mi, ok := v.(*ssa.MakeInterface); ok {
					v = mi.X
				}
				if int(k.Int64()) < len(out) {
					out[k.Int64()] = v
				}
			}
		}
	}
	for _, v := range out {
		if v == nil {
			return nil
		}
	}
	return out
}

// sprintfLiteralLen: bytes of the format that are not part of a verb.
func sprintfLiteralLen(f string) int {
	n := 0
	for i := 0; i < len(f); i++ {
		if f[i] != '%' {
			n++
			continue
		}
		i++
		if i < len(f) && f[i] == '%' {
			n++
			continue
		}
		for i < len(f) && strings.ContainsRune("+-# 0123456789.*[]", rune(f[i])) {
			i++
		}
	}
	return n
}

func pkgOf(f *ssa.Function) *types.Package {
	if f.Pkg != nil {
		return f.Pkg.Pkg
	}
	if f.Parent() != nil {
		return pkgOf(f.Parent())
	}
	return nil
}

// valueLike: immutable values whose functions can be modelled as uninterpreted functions.
func valueLike(t types.Type, depth int) bool {
	if n, ok := t.(*types.Named); ok && n.Obj().Pkg() != nil {
		switch n.Obj().Pkg().Path() {
		case "github.com/zclconf/go-cty/cty":
			return true
		}
	}
	switch u := t.Underlying().(type) {
	case *types.Basic:
		return true
	case *types.Struct:
		if depth > 3 {
			return false
		}
		for i := 0; i < u.NumFields(); i++ {
			if !valueLike(u.Field(i).Type(), depth+1) {
				return false
			}
		}
		return true
	}
	return false
}

func (e *Enc) resultTypes(c *ssa.Call) []types.Type {
	if tp, ok := c.Type().(*types.Tuple); ok {
		var ts []types.Type
		for i := 0; i < tp.Len(); i++ {
			ts = append(ts, tp.At(i).Type())
		}
		return ts
	}
	if c.Type() == nil {
		return nil
	}
	return []types.Type{c.Type()}
}

// bindResults gives the call fresh result symbols.
func (e *Enc) bindResults(fr *Frame, c *ssa.Call) []string {
	ts := e.resultTypes(c)
	if _, ok := c.Type().(*types.Tuple); ok {
		var ns []string
		for i, t := range ts {
			n := e.freshConst(fr.pfx+san(c.Name())+fmt.Sprintf("_r%d", i), e.d.sortOf(t))
			e.typeFacts(t, n, false)
			ns = append(ns, n)
		}
		fr.tup[c] = ns
		return ns
	}
	if len(ts) == 0 || c.Type().String() == "()" {
		return nil
	}
	n := e.freeVal(fr, c)
	return []string{n}
}

// olderResults: what a pure call returns existed before the call.
func (e *Enc) olderResults(fr *Frame, c *ssa.Call, st *State) {
	ts := e.resultTypes(c)
	if tp, ok := fr.tup[c]; ok {
		for i, t := range ts {
			if i < len(tp) {
				e.older(t, tp[i], st.nxt, 0)
			}
		}
		return
	}
	if t, ok := fr.vals[c]; ok && len(ts) == 1 {
		e.older(ts[0], t, st.nxt, 0)
	}
}

func (e *Enc) ufResult(fr *Frame, c *ssa.Call, fn string, args []string, argVals []ssa.Value) {
	var sorts []string
	for _, a := range argVals {
		sorts = append(sorts, e.d.sortOf(a.Type()))
	}
	e.ufResultS(fr, c, fn, args, sorts)
}

// readerResult: the result of a read-only function: an uninterpreted function of its arguments, of the
// version of pre-existing memory and - unless every reference among the arguments is old - of the
// version of the memory allocated by the current function.
func (e *Enc) readerResult(fr *Frame, c *ssa.Call, fn string, st *State, args []string, argVals []ssa.Value) {
	var sorts []string
	var ts []types.Type
	for _, a := range argVals {
		sorts = append(sorts, e.d.sortOf(a.Type()))
		ts = append(ts, a.Type())
	}
	var reads []string
	if callee := c.Common().StaticCallee(); callee != nil {
		reads = e.readHeaps(callee)
	} else if c.Common().IsInvoke() {
		reads = e.readHeapsIface(c.Common().Value.Type(), c.Common().Method)
	}
	told, gate := e.heapTokensH(st, args, ts, reads)
	e.ufResultS(fr, c, fn, append(append([]string{}, args...), told, gate), append(sorts, "Int", "Int"))
}

func (e *Enc) heapTokens(st *State, args []string, ts []types.Type) (string, string) {
	return e.heapTokensH(st, args, ts, nil)
}

// heapTokensH: reads lists the heaps the function reads (nil: unknown, any heap).
func (e *Enc) heapTokensH(st *State, args []string, ts []types.Type, reads []string) (string, string) {
	var conds []string
	unknown := false
	var walk func(t types.Type, term string, depth int)
	walk = func(t types.Type, term string, depth int) {
		switch u := t.Underlying().(type) {
		case *types.Pointer, *types.Map, *types.Signature, *types.Chan:
			conds = append(conds, "(< "+term+" A0)")
		case *types.Slice:
			conds = append(conds, "(< (sarr "+term+") A0)")
		case *types.Interface:
			e.d.decl("ptrtag", "(Int) Bool")
			conds = append(conds, "(or (not (ptrtag (itag "+term+"))) (< (ival "+term+") A0))")
		case *types.Struct:
			if depth > 2 {
				unknown = true
				return
			}
			for i := 0; i < u.NumFields(); i++ {
				walk(u.Field(i).Type(), sel(t, u, i, term), depth+1)
			}
		case *types.Array:
			unknown = true
		}
	}
	for i, t := range ts {
		walk(t, args[i], 0)
	}
	told := fmt.Sprint(st.verOld)
	cur := fmt.Sprint(st.ver)
	if reads != nil {
		// the version of exactly the heaps that are read
		key := ""
		for _, h := range reads {
			key += fmt.Sprintf("%s:%d;", h, e.verOf(st, h))
		}
		id, ok := e.tokIDs[key]
		if !ok {
			id = len(e.tokIDs) + 1
			e.tokIDs[key] = id
		}
		cur = fmt.Sprint(id)
	}
	if unknown {
		return told, cur
	}
	if len(conds) == 0 {
		return told, "0"
	}
	return told, "(ite (and " + strings.Join(conds, " ") + " true) 0 " + cur + ")"
}

// readHeapsIface: union over the implementations of an interface method.
func (e *Enc) readHeapsIface(it types.Type, m *types.Func) []string {
	impls := e.w.implementations(it, m)
	if impls == nil {
		return nil
	}
	set := map[string]bool{}
	for _, f := range impls {
		r := e.readHeaps(f)
		if r == nil {
			return nil
		}
		for _, h := range r {
			set[h] = true
		}
	}
	hs := []string{}
	for h := range set {
		hs = append(hs, h)
	}
	sort.Strings(hs)
	return hs
}

// readHeaps: the heaps a read-only function may read (its own loads and those of the readers it calls).
func (e *Enc) readHeaps(f *ssa.Function) []string {
	if r, ok := e.readMemo[f]; ok {
		return r
	}
	e.readMemo[f] = nil
	set := map[string]bool{}
	unknown := false
	var visit func(g *ssa.Function, depth int)
	seen := map[*ssa.Function]bool{}
	visit = func(g *ssa.Function, depth int) {
		if g == nil || seen[g] || len(g.Blocks) == 0 {
			if g != nil && len(g.Blocks) == 0 {
				unknown = true
			}
			return
		}
		seen[g] = true
		for _, b := range g.Blocks {
			for _, in := range b.Instrs {
				switch x := in.(type) {
				case *ssa.UnOp:
					if x.Op.String() == "*" {
						for _, h := range e.heapsOfPtr(x.X) {
							set[h] = true
						}
					}
				case *ssa.Lookup:
					if m, ok := x.X.Type().Underlying().(*types.Map); ok {
						d, v, l := e.mapHeaps(m)
						set[d], set[v], set[l] = true, true, true
					}
				case *ssa.Range:
					if m, ok := x.X.Type().Underlying().(*types.Map); ok {
						d, v, l := e.mapHeaps(m)
						set[d], set[v], set[l] = true, true, true
					}
				case *ssa.Convert:
					if sl, ok := x.X.Type().Underlying().(*types.Slice); ok {
						set[e.elemHeap(sl.Elem())] = true
					}
				case *ssa.Call:
					if bi, ok := x.Call.Value.(*ssa.Builtin); ok {
						if bi.Name() == "len" {
							if m, ok := x.Call.Args[0].Type().Underlying().(*types.Map); ok {
								_, _, l := e.mapHeaps(m)
								set[l] = true
							}
						}
						continue
					}
					if x.Call.IsInvoke() {
						impls := e.w.implementations(x.Call.Value.Type(), x.Call.Method)
						if impls == nil {
							unknown = true
						}
						for _, g2 := range impls {
							visit(g2, depth+1)
						}
						continue
					}
					if c := x.Call.StaticCallee(); c != nil {
						if e.w.mine[pkgOf(c)] {
							visit(c, depth+1)
						} else if e.w.readOnlyExt != nil && e.w.readOnlyExt(shortName(c)) {
							// reads what its arguments point to
							for _, a := range x.Call.Args {
								switch u := a.Type().Underlying().(type) {
								case *types.Slice:
									set[e.elemHeap(u.Elem())] = true
								case *types.Pointer:
									if st, ok := u.Elem().Underlying().(*types.Struct); ok {
										for i := 0; i < st.NumFields(); i++ {
											set[e.fieldHeap(u.Elem(), st, i)] = true
										}
									} else {
										set[e.cellHeap(u.Elem())] = true
									}
								case *types.Map:
									d, v, l := e.mapHeaps(u)
									set[d], set[v], set[l] = true, true, true
								}
							}
						} else {
							for _, a := range x.Call.Args {
								if !valueLike(a.Type(), 0) {
									unknown = true
								}
							}
						}
					} else {
						unknown = true
					}
				}
			}
		}
	}
	visit(f, 0)
	if unknown {
		e.readMemo[f] = nil
		return nil
	}
	var hs []string
	for h := range set {
		hs = append(hs, h)
	}
	sort.Strings(hs)
	if hs == nil {
		hs = []string{}
	}
	e.readMemo[f] = hs
	return hs
}

func (e *Enc) ufResultS(fr *Frame, c *ssa.Call, fn string, args []string, sorts []string) {
	ts := e.resultTypes(c)
	mk := func(i int, t types.Type) string {
		name := fmt.Sprintf("%s_%d", fn, i)
		e.d.decl(name, "("+strings.Join(sorts, " ")+") "+e.d.sortOf(t))
		if len(args) == 0 {
			return name
		}
		return "(" + name + " " + strings.Join(args, " ") + ")"
	}
	if _, ok := c.Type().(*types.Tuple); ok {
		var ns []string
		for i, t := range ts {
			n := e.freshConst(fr.pfx+san(c.Name())+fmt.Sprintf("_r%d", i), e.d.sortOf(t))
			e.define(n, mk(i, t))
			e.typeFacts(t, n, false)
			ns = append(ns, n)
		}
		fr.tup[c] = ns
		return
	}
	if len(ts) == 0 || c.Type().String() == "()" {
		return
	}
	n := e.setVal(fr, c, mk(0, ts[0]))
	e.typeFacts(ts[0], n, false)
}

// havocCall: results unknown; heap: objects that existed before the call keep their contents
// (default frame, checked on the callee itself), unless full.
func (e *Enc) havocCall(fr *Frame, st *State, c *ssa.Call, full bool) *State {
	if e.pureCalls && !full {
		// comparator harness: the heap is constant, so a call is a function of its arguments
		cc := c.Common()
		name := "PC_dyn"
		var args []string
		var vals []ssa.Value
		if cc.IsInvoke() {
			name = "PC_" + typeKey(cc.Value.Type()) + "_" + cc.Method.Name()
			args = append(args, e.val(fr, cc.Value))
			vals = append(vals, cc.Value)
		} else if callee := cc.StaticCallee(); callee != nil {
			name = "PC_" + san(shortName(callee))
		}
		for _, a := range cc.Args {
			args = append(args, e.val(fr, a))
			vals = append(vals, a)
		}
		e.ufResult(fr, c, name, args, vals)
		return st
	}
	var ns *State
	if full {
		ns = e.newState(sHavoc, st)
		ns.heap = "*"
	} else {
		ns = e.newState(sCall, st)
		ns.bound = st.nxt
		ns.ver = st.ver // the callee writes no object that existed before the call (default frame)
	}
	e.n++
	ns.id = e.n
	nx := e.freshConst(fr.pfx+"nxtC", "Int")
	e.assume("(>= " + nx + " " + st.nxt + ")")
	ns.nxt = nx
	rs := e.bindResults(fr, c)
	for i, t := range e.resultTypes(c) {
		if i < len(rs) {
			e.older(t, rs[i], nx, 0)
		}
	}
	st = ns
	st = e.closureEffects(fr, st, c)
	return st
}

func (e *Enc) invoke(fr *Frame, st *State, c *ssa.Call, recv string, args []string) *State {
	cc := c.Common()
	m := cc.Method
	it := cc.Value.Type()
	if ict := e.spec.ifaceContract(it, m.Name()); ict != nil {
		return e.callIfaceContract(fr, st, c, ict, recv, args)
	}
	mine := false
	if n, ok := it.(*types.Named); ok && n.Obj().Pkg() != nil && e.w.mine[n.Obj().Pkg()] {
		mine = true
	}
	if nt, ok := it.(*types.Named); ok && mine && e.spec.pureMethod[nt.Obj().Pkg().Name()+"."+nt.Obj().Name()+"."+m.Name()] {
		all := append([]string{recv}, args...)
		vals := append([]ssa.Value{cc.Value}, cc.Args...)
		e.ufResult(fr, c, "IM_"+typeKey(it)+"_"+m.Name(), all, vals)
		e.usedTrusted["pure-method "+typeKey(it)+"."+m.Name()+" (declared)"] = true
		return st
	}
	if mine && e.w.pureIfaceMethod(it, m) {
		all := append([]string{recv}, args...)
		vals := append([]ssa.Value{cc.Value}, cc.Args...)
		e.ufResult(fr, c, "IM_"+typeKey(it)+"_"+m.Name(), all, vals)
		e.usedTrusted["pure-getter "+typeKey(it)+"."+m.Name()] = true
		return st
	}
	if mine && e.w.readerIfaceMethod(it, m) {
		// reads the heap but writes nothing: a function of receiver, arguments and the heap version
		all := append([]string{recv}, args...)
		vals := append([]ssa.Value{cc.Value}, cc.Args...)
		e.readerResult(fr, c, "IMR_"+typeKey(it)+"_"+m.Name(), st, all, vals)
		e.usedTrusted["reader-method "+typeKey(it)+"."+m.Name()] = true
		return st
	}
	if !mine {
		pure := true
		for _, a := range cc.Args {
			if !valueLike(a.Type(), 0) {
				pure = false
			}
		}
		if nt, ok := it.(*types.Named); ok && nt.Obj().Pkg() != nil && e.spec.pureMethod[nt.Obj().Pkg().Name()+"."+nt.Obj().Name()+"."+m.Name()] {
			pure = true
			e.usedTrusted["pure-method "+nt.Obj().Pkg().Name()+"."+nt.Obj().Name()+"."+m.Name()] = true
		}
		if pure {
			// methods of external interface values (AST nodes, cty): pure functions of receiver and arguments
			all := append([]string{recv}, args...)
			vals := append([]ssa.Value{cc.Value}, cc.Args...)
			e.ufResult(fr, c, "IM_"+astIfaceKey(it)+"_"+m.Name(), all, vals)
			e.olderResults(fr, c, st)
			e.invokeFacts(fr, c, it, m.Name(), recv)
			return st
		}
	}
	st = e.havocCall(fr, st, c, false)
	return st
}

func (e *Enc) inlineCall(fr *Frame, st *State, c *ssa.Call, callee *ssa.Function, args []string, cc *ssa.CallCommon) *State {
	mc, _ := cc.Value.(*ssa.MakeClosure)
	rs, ns := e.inlineFn(fr, st, callee, args, cc.Args, mc, true)
	if rs == nil {
		e.bindResults(fr, c)
		return ns
	}
	if _, ok := c.Type().(*types.Tuple); ok {
		fr.tup[c] = rs
	} else if len(rs) == 1 {
		fr.vals[c] = rs[0]
	}
	return ns
}

// inlineFn encodes the callee's body in place (its body is its contract).
func (e *Enc) inlineFn(fr *Frame, st *State, callee *ssa.Function, args []string, argVals []ssa.Value, mc *ssa.MakeClosure, emit bool) ([]string, *State) {
	return e.inlineFnB(fr, st, callee, args, argVals, mc, emit, nil)
}

func (e *Enc) inlineFnB(fr *Frame, st *State, callee *ssa.Function, args []string, argVals []ssa.Value, mc *ssa.MakeClosure, emit bool, bind func(nf *Frame)) ([]string, *State) {
	e.n++
	pfx := ""
	depth := 1
	if fr != nil {
		pfx = fr.pfx
		depth = fr.depth + 1
	}
	nf := e.newFrame(callee, fmt.Sprintf("%si%d_", pfx, e.n), true, depth)
	nf.a0 = st.nxt
	nf.dep = !e.w.mine[pkgOf(callee)]
	nf.silent = !emit
	for i, p := range callee.Params {
		nf.vals[p] = args[i]
		if fr != nil && argVals != nil {
			if a, ok := fr.addrs[argVals[i]]; ok && a != nil {
				nf.addrs[p] = a
			}
			if ci, ok := fr.closureOf[argVals[i]]; ok {
				nf.closureOf[p] = ci
				e.closureUse(nf, p, ci)
			}
		}
	}
	if mc != nil && fr != nil {
		for i, fv := range callee.FreeVars {
			nf.vals[fv] = e.val(fr, mc.Bindings[i])
		}
	}
	if bind != nil {
		bind(nf)
	}
	saveCur := e.cur
	e.inlineStack = append(e.inlineStack, callee)
	e.encodeBody(nf, st, e.cur)
	e.inlineStack = e.inlineStack[:len(e.inlineStack)-1]
	e.cur = saveCur
	if len(nf.rets) == 0 {
		e.cur = "false" // never returns: what follows is unreachable
		return nil, st
	}
	res := callee.Signature.Results()
	if len(nf.rets) == 1 {
		r := nf.rets[0]
		// what follows the call runs only on paths where the callee returned
		e.cur = r.reach
		return r.vals, r.st
	}
	var conds []string
	var sts []*State
	for _, r := range nf.rets {
		conds = append(conds, r.reach)
		sts = append(sts, r.st)
	}
	rr := e.freshConst(nf.pfx+"returned", "Bool")
	e.define(rr, "(or "+strings.Join(conds, " ")+")")
	e.cur = rr
	var rs []string
	for i := 0; i < res.Len(); i++ {
		n := e.freshConst(nf.pfx+fmt.Sprintf("res%d", i), e.d.sortOf(res.At(i).Type()))
		for _, r := range nf.rets {
			e.assume("(=> " + r.reach + " (= " + n + " " + r.vals[i] + "))")
		}
		rs = append(rs, n)
	}
	js := e.newState(sJoin, nil)
	js.conds, js.preds = conds, sts
	sameVer := true
	for _, p := range sts[1:] {
		if p.ver != sts[0].ver {
			sameVer = false
		}
	}
	if sameVer {
		js.ver = sts[0].ver
	}
	nx := e.freshConst(nf.pfx+"nxtR", "Int")
	for i, p := range sts {
		e.assume("(=> " + conds[i] + " (= " + nx + " " + p.nxt + "))")
	}
	e.assume("(>= " + nx + " " + st.nxt + ")")
	js.nxt = nx
	if rs == nil {
		rs = []string{}
	}
	return rs, js
}

func (e *Enc) builtin(fr *Frame, st *State, c *ssa.Call, b *ssa.Builtin) *State {
	cc := c.Common()
	switch b.Name() {
	case "len":
		a := e.val(fr, cc.Args[0])
		switch u := cc.Args[0].Type().Underlying().(type) {
		case *types.Basic:
			e.setVal(fr, c, "(strlen "+a+")")
		case *types.Slice:
			e.setVal(fr, c, "(slen "+a+")")
		case *types.Map:
			_, _, l := e.mapHeaps(u)
			n := e.setVal(fr, c, "(ite (= "+a+" 0) 0 "+e.sel(e.view(st, l), l, Loc{a})+")")
			e.assume("(>= " + n + " 0)")
		case *types.Array:
			e.setVal(fr, c, fmt.Sprint(u.Len()))
		case *types.Pointer:
			if arr, ok := u.Elem().Underlying().(*types.Array); ok {
				e.setVal(fr, c, fmt.Sprint(arr.Len()))
			} else {
				e.freeVal(fr, c)
			}
		default:
			e.freeVal(fr, c)
		}
	case "cap":
		a := e.val(fr, cc.Args[0])
		if _, ok := cc.Args[0].Type().Underlying().(*types.Slice); ok {
			e.setVal(fr, c, "(scap "+a+")")
		} else {
			e.freeVal(fr, c)
		}
	case "append":
		return e.appendOp(fr, st, c)
	case "copy":
		dst, src := e.val(fr, cc.Args[0]), e.val(fr, cc.Args[1])
		n := e.freeVal(fr, c)
		var srcLen string
		if isString(cc.Args[1].Type()) {
			srcLen = "(strlen " + src + ")"
		} else {
			srcLen = "(slen " + src + ")"
		}
		e.assume(fmt.Sprintf("(= %s (ite (< (slen %s) %s) (slen %s) %s))", n, dst, srcLen, dst, srcLen))
		e.frameOb(fr, c.Pos(), e.exprText(c.Pos(), "call"), "(sarr "+dst+")", "(= "+n+" 0)")
		el := cc.Args[0].Type().Underlying().(*types.Slice).Elem()
		h := e.elemHeap(el)
		ns := e.newState(sCopy, st)
		ns.heap = h
		if isString(cc.Args[1].Type()) {
			// bytes of a string: unknown contents
			hs := e.newState(sHavoc, st)
			hs.heap = h
			e.n++
			hs.id = e.n
			return hs
		}
		ns.cp = &vCopy{dArr: "(sarr " + dst + ")", dOff: "(soff " + dst + ")", n: n, src: e.view(st, h), sArr: "(sarr " + src + ")", sOff: "(soff " + src + ")"}
		return ns
	case "delete":
		m := cc.Args[0].Type().Underlying().(*types.Map)
		mr, k := e.val(fr, cc.Args[0]), e.val(fr, cc.Args[1])
		d, _, l := e.mapHeaps(m)
		was := e.sel(e.view(st, d), d, Loc{mr, k})
		oldLen := e.sel(e.view(st, l), l, Loc{mr})
		e.frameOb(fr, c.Pos(), e.exprText(c.Pos(), "call"), mr, "(= "+mr+" 0)")
		ns := e.newState(sStore, st)
		ns.heap, ns.loc, ns.val = d, Loc{mr, k}, "false"
		ns2 := e.newState(sStore, ns)
		ns2.heap, ns2.loc, ns2.val = l, Loc{mr}, "(ite "+was+" (- "+oldLen+" 1) "+oldLen+")"
		return ns2
	case "min", "max":
		if e.d.sortOf(c.Type()) == "Int" && len(cc.Args) == 2 {
			a, bb := e.val(fr, cc.Args[0]), e.val(fr, cc.Args[1])
			op := "<"
			if b.Name() == "max" {
				op = ">"
			}
			e.setVal(fr, c, fmt.Sprintf("(ite (%s %s %s) %s %s)", op, a, bb, a, bb))
		} else {
			e.freeVal(fr, c)
		}
	case "print", "println":
	default:
		if c.Type() != nil && c.Type().String() != "()" {
			e.freeVal(fr, c)
		}
		e.unsup("builtin " + b.Name())
	}
	return st
}

func (e *Enc) appendOp(fr *Frame, st *State, c *ssa.Call) *State {
	cc := c.Common()
	s := e.val(fr, cc.Args[0])
	sl := cc.Args[0].Type().Underlying().(*types.Slice)
	h := e.elemHeap(sl.Elem())
	var n string // number of appended elements
	var t string
	srcIsString := false
	if len(cc.Args) < 2 {
		e.setVal(fr, c, s)
		return st
	}
	t = e.val(fr, cc.Args[1])
	if isString(cc.Args[1].Type()) {
		n = "(strlen " + t + ")"
		srcIsString = true
	} else {
		n = "(slen " + t + ")"
	}
	fits := e.freshConst(fr.pfx+"fits", "Bool")
	e.define(fits, fmt.Sprintf("(<= (+ (slen %s) %s) (scap %s))", s, n, s))
	text := e.exprText(c.Pos(), "call")
	// FRAME: an append that fits writes into the existing backing array
	e.frameOb(fr, c.Pos(), text, "(sarr "+s+")", "(or (not "+fits+") (= "+n+" 0))")
	pre := st
	r := e.alloc(fr, &st, c, "ap")
	res := e.freshConst(fr.pfx+san(c.Name()), "Slice")
	fr.vals[c] = res
	newLen := fmt.Sprintf("(+ (slen %s) %s)", s, n)
	e.assume(fmt.Sprintf("(=> %s (= %s (mk_Slice (sarr %s) (soff %s) %s (scap %s))))", fits, res, s, s, newLen, s))
	e.assume(fmt.Sprintf("(=> (not %s) (and (= (sarr %s) %s) (= (soff %s) 0) (= (slen %s) %s) (>= (scap %s) %s)))", fits, res, r, res, res, newLen, res, newLen))
	// contents
	v0 := e.view(pre, h)
	// grow: copy old prefix into the new array
	grow := e.newState(sCopy, st)
	grow.heap = h
	grow.cp = &vCopy{dArr: r, dOff: "0", n: "(slen " + s + ")", src: v0, sArr: "(sarr " + s + ")", sOff: "(soff " + s + ")"}
	base := st
	dst := func(prev *State) *State {
		if srcIsString {
			hs := e.newState(sHavoc, prev)
			hs.heap = h
			e.n++
			hs.id = e.n
			return hs
		}
		ns := e.newState(sCopy, prev)
		ns.heap = h
		ns.cp = &vCopy{dArr: "(sarr " + res + ")", dOff: fmt.Sprintf("(+ (soff %s) (slen %s))", res, s), n: n, src: v0, sArr: "(sarr " + t + ")", sOff: "(soff " + t + ")"}
		return ns
	}
	a := dst(base)
	b := dst(grow)
	js := e.newState(sJoin, nil)
	js.conds = []string{fits, "(not " + fits + ")"}
	js.preds = []*State{a, b}
	js.nxt = st.nxt
	return js
}

// closureEffects: a call into code we do not inline may run any closure it receives now or received
// earlier (it may have kept it); the heaps such closures write are havocked.
func (e *Enc) closureEffects(fr *Frame, st *State, c *ssa.Call) *State {
	for _, a := range c.Common().Args {
		if ci := fr.closureOf[a]; ci != nil {
			e.escape(ci)
		}
	}
	for _, ci := range e.escaped {
		st = e.havocClosureCells(fr, st, ci)
	}
	return st
}

func (e *Enc) escape(ci *closureInfo) {
	for _, x := range e.escaped {
		if x == ci {
			return
		}
	}
	e.escaped = append(e.escaped, ci)
}

func (e *Enc) havocClosureCells(fr *Frame, st *State, ci *closureInfo) *State {
	stored, full := map[string]bool{}, map[string]bool{}
	t := false
	e.written(nil, ci.fn, 0, stored, full, &t)
	if full["*"] {
		ns := e.newState(sHavoc, st)
		ns.heap = "*"
		e.n++
		ns.id = e.n
		return ns
	}
	var hs []string
	for h := range stored {
		hs = append(hs, h)
	}
	sort.Strings(hs)
	for _, h := range hs {
		ns := e.newState(sHavoc, st)
		ns.heap = h
		e.n++
		ns.id = e.n
		st = ns
	}
	return st
}

// closureUse: a closure value used by anything but a call escapes.
func (e *Enc) closureUse(fr *Frame, v ssa.Value, ci *closureInfo) {
	refs := v.Referrers()
	if refs == nil {
		return
	}
	for _, r := range *refs {
		switch r.(type) {
		case *ssa.Call, *ssa.DebugRef:
			continue
		default:
			e.escape(ci)
			return
		}
	}
}

// readerUF: an hcl-lang function that only reads (isReader), returns plain values, and would otherwise be
// opaque (it has loops, or is under contract): modelled as an uninterpreted function of its arguments and
// the heap version, in code and in contract expressions alike.
func (e *Enc) readerUF(callee *ssa.Function) bool {
	if callee == nil || !e.w.mine[pkgOf(callee)] || !e.w.isReader(callee, 0) {
		return false
	}
	res := callee.Signature.Results()
	if res.Len() == 0 {
		return false
	}
	for i := 0; i < res.Len(); i++ {
		if !valueLike(res.At(i).Type(), 0) {
			return false
		}
	}
	return len(findLoops(callee)) > 0 || e.spec.contractFor(callee) != nil
}

func (e *Enc) readerName(callee *ssa.Function, st *State) string {
	return "RD_" + san(shortName(callee))
}

// outParams: a dependency function that is handed the address of an object allocated by the current
// function (json.Unmarshal(data, &v), fmt.Sscan(..., &x), ...) may fill it in: its cells are havocked.
// (Dependency code is assumed not to write through pointers to pre-existing memory.)
func (e *Enc) outParams(fr *Frame, st *State, c *ssa.Call) *State {
	for _, a := range c.Common().Args {
		v := a
		if mi, ok := v.(*ssa.MakeInterface); ok {
			v = mi.X
		}
		pt, ok := v.Type().Underlying().(*types.Pointer)
		if !ok {
			continue
		}
		ref, known := fr.vals[v]
		if !known || !e.allocTerms[ref] {
			continue
		}
		var hs []string
		switch u := pt.Elem().Underlying().(type) {
		case *types.Struct:
			for i := 0; i < u.NumFields(); i++ {
				hs = append(hs, e.fieldHeap(pt.Elem(), u, i))
			}
		case *types.Array:
			hs = append(hs, e.elemHeap(u.Elem()))
		default:
			hs = append(hs, e.cellHeap(pt.Elem()))
		}
		for _, h := range hs {
			e.n++
			fn := fmt.Sprintf("HO%d_%s", e.n, h)
			e.declHeapFn(fn, h)
			ns := e.newState(sFill, st)
			ns.heap, ns.loc, ns.fn = h, Loc{ref}, fn
			st = ns
		}
	}
	return st
}
