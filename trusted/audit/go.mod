module astaudit

go 1.22.0

require (
	github.com/hashicorp/hcl/v2 v2.23.0
	github.com/zclconf/go-cty v1.16.2
)

require (
	github.com/agext/levenshtein v1.2.1 // indirect
	github.com/apparentlymart/go-textseg/v15 v15.0.0 // indirect
	github.com/mitchellh/go-wordwrap v0.0.0-20150314170334-ad45545899c7 // indirect
	golang.org/x/text v0.11.0 // indirect
)
