package main

import (
	"bytes"
	"fmt"
	"math/rand"
	"strings"
	"unicode"
	"unicode/utf8"
)

// stdAudit: the trusted contracts of trusted/std.spec on pseudo-random byte strings (bounded; refutes only).
func stdAudit() (cases int, refuted []string) {
	rng := rand.New(rand.NewSource(1))
	alphabet := []byte("ab .,\"\n\t[]{}=:\x00\xff\xc3\xa9\xe2\x82\xac\xf0\x9f\x98\x80x")
	gen := func() []byte {
		n := rng.Intn(12)
		b := make([]byte, n)
		for i := range b {
			b[i] = alphabet[rng.Intn(len(alphabet))]
		}
		return b
	}
	bad := func(name string, in interface{}) {
		if len(refuted) < 10 {
			refuted = append(refuted, fmt.Sprintf("%s on %q", name, in))
		}
	}
	isSp := func(r rune) bool { return unicode.IsSpace(r) || r == 'a' }
	for k := 0; k < 20000; k++ {
		p, q := gen(), gen()
		cases++
		if _, size := utf8.DecodeRune(p); !(0 <= size && size <= len(p) && size <= 4 && (len(p) == 0 || size >= 1)) {
			bad("utf8.DecodeRune", p)
		}
		if _, size := utf8.DecodeLastRune(p); !(0 <= size && size <= len(p) && size <= 4 && (len(p) == 0 || size >= 1)) {
			bad("utf8.DecodeLastRune", p)
		}
		if i := bytes.IndexFunc(p, isSp); !(-1 <= i && i < len(p)) {
			bad("bytes.IndexFunc", p)
		}
		var c byte = 'x'
		if len(q) > 0 {
			c = q[0]
		}
		if i := bytes.IndexByte(p, c); !(-1 <= i && i < len(p)) {
			bad("bytes.IndexByte", p)
		}
		if i := bytes.Index(p, q); !(-1 <= i && i <= len(p)) {
			bad("bytes.Index", p)
		}
		if i := strings.Index(string(p), string(q)); !(-1 <= i && i <= len(p)) {
			bad("strings.Index", p)
		}
		if i := strings.IndexByte(string(p), c); !(-1 <= i && i < len(p)) {
			bad("strings.IndexByte", p)
		}
		if i := strings.LastIndex(string(p), string(q)); !(-1 <= i && i <= len(p)) {
			bad("strings.LastIndex", p)
		}
		if r := bytes.TrimRight(p, string(q)); len(r) > len(p) {
			bad("bytes.TrimRight", p)
		}
		if r := bytes.TrimRightFunc(p, isSp); len(r) > len(p) {
			bad("bytes.TrimRightFunc", p)
		}
		if r := bytes.TrimLeftFunc(p, isSp); len(r) > len(p) {
			bad("bytes.TrimLeftFunc", p)
		}
		if r := bytes.TrimFunc(p, isSp); len(r) > len(p) {
			bad("bytes.TrimFunc", p)
		}
		if r := bytes.TrimSpace(p); len(r) > len(p) {
			bad("bytes.TrimSpace", p)
		}
	}
	return
}
