// astaudit: checks the trusted hclsyntax AST facts of /verif/trusted/base.spec (nonnil, elem-nonnil,
// mapval-nonnil, iface-nonnil, structinv) on a corpus of parses: a set of configurations, every prefix of
// each (the parser's error recovery), and every single-token deletion. A bounded check of assumptions the
// proofs rely on - it proves nothing, it can only refute a fact.
package main

import (
	"bufio"
	"encoding/json"
	"fmt"
	"os"
	"reflect"
	"sort"
	"strings"

	"github.com/hashicorp/hcl/v2"
	"github.com/hashicorp/hcl/v2/hclsyntax"
	hcljson "github.com/hashicorp/hcl/v2/json"
)

var corpus = []string{
	`attr = "value"`,
	`attr = var.foo.bar[0]["k"].*.x`,
	`attr = [1, 2, var.x, { a = 1, "b" = 2, (c) = 3 }]`,
	`attr = { for k, v in var.m : k => upper(v) if v != "" }`,
	`attr = [for v in var.l : v...]`,
	`attr = cond ? "a" : "b"`,
	`attr = !x && (y || z) == (1 + 2 * 3 - 4 / 5 % 6)`,
	`attr = "prefix-${var.name}-%{ if a }x%{ else }y%{ endif }"`,
	"attr = <<EOT\nhello ${var.x}\nEOT\n",
	"attr = <<-EOT\n  hello\n  EOT\n",
	`attr = provider::ns::fn(1, var.a, [2]...)`,
	`attr = fn()`,
	`attr = fn(a, b`,
	`attr = var.foo.`,
	`attr = var.foo[`,
	`attr = `,
	`attr = [`,
	`attr = {`,
	`attr = { a = `,
	`attr = "${`,
	"block \"l1\" \"l2\" {\n  inner = 1\n  nested {\n    x = var.y\n  }\n}\n",
	"block \"l1\" l2 {\n  dynamic \"n\" {\n    for_each = var.l\n    content {\n      a = n.value\n    }\n  }\n}\n",
	"block {\n  count = 2\n  a = count.index\n  b = each.key\n  c = self.x\n}\n",
	"resource \"aws_instance\" \"x\" {\n  ami = data.aws_ami.y.id\n  tags = {\n    Name = \"n\"\n  }\n  lifecycle {\n    ignore_changes = [tags]\n  }\n}\n",
	"a = 1\nb = 2\nblk \"x\" {\n}\nc = [\n  1,\n  2,\n]\n",
	"blk \"unterminated {\n  a = 1\n}\n",
	"blk \"x\" \n{\n}\n",
	"x = 1 y = 2\n",
	"= 3\n",
	"blk { a = 1 }\n",
	"locals {\n  l = [for i, v in x : { (i) = v }]\n  s = x[*].id\n  t = x.*.id\n  n = null\n  b = true\n  f = 1.5e3\n}\n",
}

type facts struct {
	nonnil   map[string][]string // "pkg.Type" -> fields
	elem     map[string]bool
	mapval   map[string]bool
	iface    map[string]bool
}

func loadFacts(path string) facts {
	f := facts{nonnil: map[string][]string{}, elem: map[string]bool{}, mapval: map[string]bool{}, iface: map[string]bool{}}
	fh, err := os.Open(path)
	if err != nil {
		fmt.Fprintln(os.Stderr, err)
		os.Exit(2)
	}
	defer fh.Close()
	sc := bufio.NewScanner(fh)
	for sc.Scan() {
		l := strings.TrimSpace(sc.Text())
		switch {
		case strings.HasPrefix(l, "nonnil "):
			r := strings.TrimPrefix(l, "nonnil ")
			i := strings.LastIndex(r, ".")
			f.nonnil[r[:i]] = append(f.nonnil[r[:i]], r[i+1:])
		case strings.HasPrefix(l, "elem-nonnil "):
			f.elem[strings.TrimPrefix(l, "elem-nonnil ")] = true
		case strings.HasPrefix(l, "mapval-nonnil "):
			f.mapval[strings.TrimPrefix(l, "mapval-nonnil ")] = true
		case strings.HasPrefix(l, "iface-nonnil "):
			f.iface[strings.TrimPrefix(l, "iface-nonnil ")] = true
		}
	}
	return f
}

type auditor struct {
	f       facts
	seen    map[uintptr]bool
	viol    map[string]int
	checked map[string]int
}

func isNilable(v reflect.Value) bool {
	switch v.Kind() {
	case reflect.Ptr, reflect.Interface, reflect.Map, reflect.Slice, reflect.Func, reflect.Chan:
		return true
	}
	return false
}

func typedNil(v reflect.Value) bool {
	if v.Kind() != reflect.Interface || v.IsNil() {
		return false
	}
	e := v.Elem()
	return isNilable(e) && e.IsNil()
}

func (a *auditor) bad(fact, where string) {
	a.viol[fact]++
	if a.viol[fact] <= 3 {
		fmt.Printf("REFUTED %s at %s\n", fact, where)
	}
}

func (a *auditor) walk(v reflect.Value, where string, depth int) {
	if !v.IsValid() || depth > 60 {
		return
	}
	t := v.Type()
	ts := t.String()
	switch v.Kind() {
	case reflect.Interface:
		if a.f.iface[ts] {
			a.checked["iface-nonnil "+ts]++
			if typedNil(v) {
				a.bad("iface-nonnil "+ts, where)
			}
		}
		if !v.IsNil() {
			a.walk(v.Elem(), where, depth+1)
		}
	case reflect.Ptr:
		if v.IsNil() {
			return
		}
		if a.seen[v.Pointer()] {
			return
		}
		a.seen[v.Pointer()] = true
		a.walk(v.Elem(), where, depth+1)
	case reflect.Struct:
		if strings.Contains(t.PkgPath(), "go-cty") {
			return
		}
		for _, fn := range a.f.nonnil[ts] {
			fv := v.FieldByName(fn)
			if !fv.IsValid() {
				a.bad("nonnil "+ts+"."+fn+" (no such field)", where)
				continue
			}
			a.checked["nonnil "+ts+"."+fn]++
			if isNilable(fv) && (fv.IsNil() || typedNil(fv)) {
				a.bad("nonnil "+ts+"."+fn, where)
			}
		}
		switch ts {
		case "hclsyntax.Block", "hcl.Block":
			a.checked["structinv "+ts+" labels"]++
			if v.FieldByName("Labels").Len() != v.FieldByName("LabelRanges").Len() {
				a.bad("structinv "+ts+": len(Labels) == len(LabelRanges)", where)
			}
		case "hclsyntax.ScopeTraversalExpr":
			a.checked["structinv "+ts+" absolute"]++
			tr := v.FieldByName("Traversal")
			ok := tr.Len() > 0
			if ok {
				_, ok = tr.Index(0).Interface().(hcl.TraverseRoot)
			}
			if !ok {
				a.bad("structinv "+ts+": traversal absolute and non-empty", where)
			}
		}
		for i := 0; i < v.NumField(); i++ {
			if t.Field(i).PkgPath != "" {
				continue // unexported
			}
			a.walk(v.Field(i), where+"."+t.Field(i).Name, depth+1)
		}
	case reflect.Slice:
		if a.f.elem[ts] {
			for i := 0; i < v.Len(); i++ {
				a.checked["elem-nonnil "+ts]++
				e := v.Index(i)
				if isNilable(e) && (e.IsNil() || typedNil(e)) {
					a.bad("elem-nonnil "+ts, where)
				}
			}
		}
		if t.Elem().Kind() == reflect.Uint8 {
			return
		}
		for i := 0; i < v.Len(); i++ {
			a.walk(v.Index(i), fmt.Sprintf("%s[%d]", where, i), depth+1)
		}
	case reflect.Map:
		if a.f.mapval[ts] {
			for _, k := range v.MapKeys() {
				a.checked["mapval-nonnil "+ts]++
				e := v.MapIndex(k)
				if isNilable(e) && (e.IsNil() || typedNil(e)) {
					a.bad("mapval-nonnil "+ts, where)
				}
			}
		}
		for _, k := range v.MapKeys() {
			a.walk(v.MapIndex(k), fmt.Sprintf("%s[%v]", where, k), depth+1)
		}
	}
}

func (a *auditor) parse(src string) {
	f, _ := hclsyntax.ParseConfig([]byte(src), "a.hcl", hcl.InitialPos)
	if f == nil {
		return
	}
	a.seen = map[uintptr]bool{}
	a.walk(reflect.ValueOf(f), fmt.Sprintf("%q", short(src)), 0)
	if body, ok := f.Body.(*hclsyntax.Body); ok {
		// the hcl.* views the decoder works with
		for _, b := range body.Blocks {
			a.walk(reflect.ValueOf(b.AsHCLBlock()), fmt.Sprintf("%q AsHCLBlock", short(src)), 0)
		}
		if attrs, _ := body.JustAttributes(); attrs != nil {
			a.walk(reflect.ValueOf(attrs), fmt.Sprintf("%q JustAttributes", short(src)), 0)
		}
	}
	// expression entry point as well
	if e, _ := hclsyntax.ParseExpression([]byte(src), "e.hcl", hcl.InitialPos); e != nil {
		a.walk(reflect.ValueOf(&e).Elem(), fmt.Sprintf("%q (expr)", short(src)), 0)
		a.exprMaps(e, src)
	}
	if body, ok := f.Body.(*hclsyntax.Body); ok {
		for _, at := range body.Attributes {
			a.exprMaps(at.Expr, src)
		}
	}
}

// exprMaps: the key/value pairs hcl.ExprMap hands to the decoder for object expressions.
func (a *auditor) exprMaps(e hcl.Expression, src string) {
	if e == nil {
		return
	}
	if kvs, _ := hcl.ExprMap(e); kvs != nil {
		for i := range kvs {
			a.walk(reflect.ValueOf(kvs[i]), fmt.Sprintf("%q ExprMap", short(src)), 0)
		}
	}
}

var jsonCorpus = []string{
	`{"attr": "v", "n": 1, "l": [1, "${var.x}"], "o": {"a": {"b": true}}}`,
	`{"resource": {"aws_instance": {"x": {"ami": "${data.a.b.id}", "count": 2, "tags": {"k": "v"}}}}}`,
	`{"blk": [{"l1": {"a": 1}}, {"l2": {"a": 2}}], "attr": null}`,
}

func (a *auditor) parseJSON(src string) {
	f, _ := hcljson.Parse([]byte(src), "a.hcl.json")
	if f == nil || f.Body == nil {
		return
	}
	a.seen = map[uintptr]bool{}
	where := fmt.Sprintf("%q (json)", short(src))
	a.walk(reflect.ValueOf(f), where, 0)
	if attrs, _ := f.Body.JustAttributes(); attrs != nil {
		a.walk(reflect.ValueOf(attrs), where+" JustAttributes", 0)
		for _, at := range attrs {
			a.exprMaps(at.Expr, src)
		}
	}
	sch := &hcl.BodySchema{
		Attributes: []hcl.AttributeSchema{{Name: "attr"}, {Name: "n"}, {Name: "l"}, {Name: "o"}},
		Blocks:     []hcl.BlockHeaderSchema{{Type: "resource", LabelNames: []string{"type", "name"}}, {Type: "blk", LabelNames: []string{"l"}}},
	}
	if c, _, _ := f.Body.PartialContent(sch); c != nil {
		a.walk(reflect.ValueOf(c), where+" PartialContent", 0)
		for _, b := range c.Blocks {
			if b != nil && b.Body != nil {
				if attrs, _ := b.Body.JustAttributes(); attrs != nil {
					a.walk(reflect.ValueOf(attrs), where+" nested JustAttributes", 0)
				}
			}
		}
	}
}

func short(s string) string {
	if len(s) > 50 {
		return s[:50] + "…"
	}
	return s
}

func main() {
	spec := "/verif/trusted/base.spec"
	if len(os.Args) > 1 {
		spec = os.Args[1]
	}
	a := &auditor{f: loadFacts(spec), viol: map[string]int{}, checked: map[string]int{}}
	parses := 0
	for _, src := range corpus {
		a.parse(src)
		parses++
		for i := 0; i < len(src); i++ { // every prefix
			a.parse(src[:i])
			parses++
		}
		toks, _ := hclsyntax.LexConfig([]byte(src), "a.hcl", hcl.InitialPos)
		for _, tk := range toks { // every single-token deletion
			if tk.Range.Start.Byte >= tk.Range.End.Byte {
				continue
			}
			a.parse(src[:tk.Range.Start.Byte] + src[tk.Range.End.Byte:])
			parses++
		}
	}
	for _, src := range jsonCorpus {
		a.parseJSON(src)
		parses++
		for i := 0; i < len(src); i++ {
			a.parseJSON(src[:i])
			parses++
		}
	}
	var never []string
	for k := range a.f.nonnil {
		for _, fn := range a.f.nonnil[k] {
			if a.checked["nonnil "+k+"."+fn] == 0 {
				never = append(never, "nonnil "+k+"."+fn)
			}
		}
	}
	sort.Strings(never)
	nv := 0
	var refuted []string
	for k, n := range a.viol {
		nv += n
		refuted = append(refuted, fmt.Sprintf("%s (%d times)", k, n))
	}
	sort.Strings(refuted)
	total := 0
	for _, n := range a.checked {
		total += n
	}
	stdCases, stdRefuted := stdAudit()
	nv += len(stdRefuted)
	out := map[string]interface{}{"std_contract_cases": stdCases, "std_contracts_refuted": stdRefuted, "parses": parses, "fact_instances_checked": total, "facts_refuted": refuted, "facts_never_exercised": never}
	b, _ := json.MarshalIndent(out, "", " ")
	fmt.Println(string(b))
	if nv > 0 {
		os.Exit(1)
	}
}
